"""Hypothesis strategies for packet *specs* (the JSON-able layer lists of pvf.ref.pktdissect).

Constructive, never rejecting.  Demultiplexing keys are left to be derived from the structure; where a raw
payload is attached the key is drawn from the values that select no POX parser.  Used by C14 (POX as the
builder) and C15 (reference-built frames as mutation bases).
"""
from hypothesis import strategies as st

from ..ref import pktdissect as P


def u(bits):
  m = (1 << bits) - 1
  edge = sorted(v for v in {0, 1, m, m - 1, 1 << (bits - 1), (1 << (bits - 1)) - 1} if 0 <= v <= m)
  return st.one_of(st.sampled_from(edge), st.integers(0, m))


def nbytes(n):
  return st.one_of(st.sampled_from([b"\0" * n, b"\xff" * n, bytes(range(1, n + 1))]), st.binary(min_size=n, max_size=n))


def blen(lo, hi, small=24):
  """a length in lo..hi: mostly small, but min, min+1, max-1, max and the 255/256/257 boundary are drawn explicitly, so that every
  variable-length element is exercised up to its length limit"""
  edges = sorted({lo, min(lo + 1, hi), hi, max(hi - 1, lo)} | {b for b in (255, 256, 257) if lo <= b <= hi})
  sm = st.integers(lo, max(lo, min(hi, small)))
  return st.one_of(sm, sm, sm, st.sampled_from(edges), st.integers(lo, hi))


def pbytes(lo, hi, small=24):
  """bytes of a blen() length; long values are pattern-filled (cheap to draw and to shrink)"""
  return st.one_of(st.binary(min_size=lo, max_size=max(lo, min(hi, small))),
                   st.tuples(blen(lo, hi, small), st.integers(0, 6)).map(lambda t: P.pattern(t[0], t[1])))


mac = nbytes(6)
ip4 = nbytes(4)
ip6 = nbytes(16)


@st.composite
def raw(draw, lo=0, hi=1500):
  """{"t":"raw"}: parity drawn first so that odd and even lengths are equally likely."""
  odd = draw(st.booleans())
  half = draw(st.one_of(st.integers(0, 16), st.integers(0, 64), st.integers(0, hi // 2)))
  n = 2 * half + (1 if odd else 0)
  n = max(lo, min(hi, n))
  if n % 2 != (1 if odd else 0):
    n = n - 1 if n - 1 >= lo else n + 1
  return {"t": "raw", "len": n, "pat": draw(st.integers(0, 6))}


def _free_ethertype():
  return st.one_of(st.sampled_from([0x88b5, 0x0600, 0xffff, 0x0801, 0x9100]), st.integers(1536, 0xffff)).map(
      lambda t: t if t not in P.POX_ETHERTYPES else 0x88b5)


def _free_proto4():
  return st.integers(0, 255).map(lambda p: p if p not in P.POX_IPPROTOS4 else 253)


def _free_nh6():
  return st.integers(0, 255).map(lambda p: p if p not in P.POX_NH6 else 253)


def _free_port():
  return u(16).map(lambda p: p if p not in P.UDP_APP_PORTS else 0xc000)


# --------------------------------------------------------------------------- link layer

def eth(**kw):
  return st.fixed_dictionaries(dict({"t": st.just("eth"), "dst": mac, "src": mac}, **kw))


def vlan(**kw):
  return st.fixed_dictionaries(dict({"t": st.just("vlan"), "pcp": st.integers(0, 7), "cfi": st.integers(0, 1), "id": u(12)}, **kw))


def llc_plain():
  # U-format control is one octet with the two low bits set; I/S formats carry a second octet
  ctrl = st.one_of(st.integers(0, 63).map(lambda v: (v << 2) | 3),
                   st.integers(0, 0xffff).map(lambda v: v if (v & 3) != 3 else v & ~1))
  sap = st.integers(0, 255)
  return st.fixed_dictionaries({"t": st.just("llc"), "dsap": sap, "ssap": sap, "ctrl": ctrl}).map(_no_snap_saps)


def _no_snap_saps(r):
  if (r["dsap"] & 0xfe) == 0xaa and (r["ssap"] & 0xfe) == 0xaa:
    r = dict(r, dsap=0x42)
  return r


def snap(oui=None, with_type=False):
  d = {"oui": st.just(b"\0\0\0") if oui is None else oui}
  if with_type:
    d["type"] = u(16)
  return st.fixed_dictionaries({"t": st.just("llc"), "dsap": st.sampled_from([0xaa, 0xab]), "ssap": st.sampled_from([0xaa, 0xab]),
                                "ctrl": st.just(3), "snap": st.fixed_dictionaries(d)})


@st.composite
def l2(draw, allow_snap=True):
  """list of link-layer records in front of an ethertype-demultiplexed payload"""
  kind = draw(st.sampled_from(["eth", "eth", "vlan", "qinq", "snap"] if allow_snap else ["eth", "eth", "vlan", "qinq"]))
  out = [draw(eth())]
  if kind in ("vlan", "qinq"):
    out.append(draw(vlan()))
  if kind == "qinq":
    out.append(draw(vlan()))
  if kind == "snap":
    if draw(st.booleans()):
      out.append(draw(vlan()))
    out.append(draw(snap()))
  return out


# --------------------------------------------------------------------------- network layer

def ipv4(**kw):
  opts = st.one_of(st.just(b""), st.just(b""), st.integers(1, 10).flatmap(lambda n: st.binary(min_size=4 * n, max_size=4 * n)))
  d = {"t": st.just("ipv4"), "tos": u(8), "id": u(16), "flags": st.one_of(st.sampled_from([0, 2]), st.integers(0, 7)), "frag": st.just(0),
       "ttl": u(8), "src": ip4, "dst": ip4, "opts": opts}
  d.update(kw)
  return st.fixed_dictionaries(d)


def _ext_header():
  normal = st.tuples(st.sampled_from([0, 43, 60]), blen(0, 255, small=3), st.integers(0, 6)).map(
      lambda t: {"k": t[0], "body": P.pattern(6 + 8 * t[1], t[2])})
  # fragment header with offset 0 and M=0 (an unfragmented datagram: the upper layer is still parseable)
  frag = st.tuples(u(8), st.integers(0, 7), st.binary(min_size=4, max_size=4)).map(
      lambda t: {"k": 44, "body": bytes([t[0], 0, t[1]]) + t[2]})
  return st.one_of(normal, normal, frag)


def ipv6(**kw):
  d = {"t": st.just("ipv6"), "tc": u(8), "flow": u(20), "hlim": u(8), "src": ip6, "dst": ip6,
       "ext": st.one_of(st.just([]), st.just([]), st.lists(_ext_header(), min_size=1, max_size=3))}
  d.update(kw)
  return st.fixed_dictionaries(d)


def udp(free=True):
  if free:
    return st.fixed_dictionaries({"t": st.just("udp"), "sport": _free_port(), "dport": _free_port()})
  return st.just({"t": "udp"})


_UNK_KINDS = [k for k in range(6, 256) if k not in (8, 30)]


def _tcp_opt():
  b4, b8, b20 = nbytes(4), nbytes(8), nbytes(20)
  return st.one_of(
    st.just({"k": "nop"}),
    u(16).map(lambda v: {"k": "mss", "v": v}),
    u(8).map(lambda v: {"k": "ws", "v": v}),
    st.just({"k": "sackperm"}),
    st.lists(st.lists(u(32), min_size=2, max_size=2), min_size=1, max_size=4).map(lambda v: {"k": "sack", "v": v}),
    st.lists(u(32), min_size=2, max_size=2).map(lambda v: {"k": "ts", "v": v}),
    st.tuples(st.sampled_from(_UNK_KINDS), pbytes(0, 38, small=12)).map(lambda t: {"k": "unk", "type": t[0], "data": t[1]}),
    st.tuples(u(8), b8, st.one_of(st.none(), b8), st.integers(0, 15)).map(
        lambda t: {"k": "mpcap", "flags": t[0], "skey": t[1], "rkey": t[2], "ver": t[3]}),
    st.tuples(st.integers(1, 3), st.integers(0, 15), u(8), b4, b4, b20).map(
        lambda t: {"k": "mpjoin", "phase": t[0], "flags": t[1], "addr_id": t[2], "rtoken": t[3], "srand": t[4], "shmac": t[5]}),
    st.tuples(st.integers(0, 31), u(32), u(32), u(32), u(16), u(16)).map(
        lambda t: {"k": "mpdss", "flags": t[0], "ack": t[1], "dsn": t[2], "seq": t[3], "length": t[4], "csum": t[5]}),
  )


def _fit_tcp_opts(opts):
  """keep the longest prefix whose encoding fits the 40 option bytes"""
  out = []
  for o in opts:
    if len(P._tcp_options(out + [o])) > 40:
      break
    out.append(o)
  return out


def tcp(free=True):
  d = {"t": st.just("tcp"), "seq": u(32), "ack": u(32), "res": st.integers(0, 15), "flags": u(8), "win": u(16), "urg": u(16),
       "opts": st.one_of(st.just([]), st.lists(_tcp_opt(), max_size=6).map(_fit_tcp_opts),
                         st.lists(_tcp_opt(), min_size=8, max_size=40).map(_fit_tcp_opts))}
  d["sport"] = u(16)
  d["dport"] = u(16)
  return st.fixed_dictionaries(d)


# --------------------------------------------------------------------------- applications

_label = blen(1, 63, small=10).flatmap(lambda n: st.text("abcdefghijklmnopqrstuvwxyz0123456789-", min_size=n, max_size=n))


def _fit_name(labels):
  """a name is at most 255 octets on the wire (length octets and the root label included)"""
  out, n = [], 1
  for l in labels:
    if n + 1 + len(l) > 255:
      l = l[:255 - n - 1]
      if not l:
        break
    out.append(l)
    n += 1 + len(l)
  return ".".join(out)


dns_name = st.lists(_label, min_size=1, max_size=5).map(_fit_name)
_suffix_names = st.sampled_from(["example.com", "a.example.com", "b.a.example.com", "com", "x.org"])
dns_any_name = st.one_of(dns_name, _suffix_names)


def _rr():
  rd = st.one_of(
    ip4.map(lambda a: (1, {"a": a})), ip6.map(lambda a: (28, {"aaaa": a})),
    st.tuples(st.sampled_from([2, 5, 12]), dns_any_name).map(lambda t: (t[0], {"name": t[1]})),
    st.tuples(st.sampled_from([16, 10, 13, 99, 255]), pbytes(0, 1000)).map(lambda t: (t[0], {"raw": t[1]})),
  )
  return st.tuples(dns_any_name, rd, u(16), u(32)).map(
      lambda t: {"name": t[0], "qtype": t[1][0], "rd": t[1][1], "qclass": t[2], "ttl": t[3]})


def dns():
  q = st.tuples(dns_any_name, u(16), u(16)).map(lambda t: {"name": t[0], "qtype": t[1], "qclass": t[2]})
  b = st.booleans()
  return st.fixed_dictionaries({"t": st.just("dns"), "id": u(16), "qr": b, "opcode": st.integers(0, 7), "aa": b, "tc": b, "rd": b,
                                "ra": b, "z": b, "ad": b, "cd": b, "rcode": st.integers(0, 15),
                                "q": st.lists(q, max_size=3), "an": st.lists(_rr(), max_size=3), "ns": st.lists(_rr(), max_size=2),
                                "ar": st.lists(_rr(), max_size=2)})


_DHCP_IP = [1, 28, 50, 54]
_DHCP_IPS = [3, 4, 6]
_DHCP_SECS = [51, 58, 59]
_DHCP_RAWK = [12, 15, 43, 56]
_DHCP_KNOWN = set(_DHCP_IP + _DHCP_IPS + _DHCP_SECS + _DHCP_RAWK + [53, 52, 55, 0, 255])


def _dhcp_opt():
  return st.one_of(
    st.tuples(st.sampled_from(_DHCP_IP), ip4).map(lambda t: {"code": t[0], "k": "ip", "v": t[1]}),
    st.tuples(st.sampled_from(_DHCP_IPS), st.one_of(st.lists(ip4, min_size=1, max_size=4), blen(1, 63).map(lambda n: [bytes([10, 9, 0, i]) for i in range(n)]))).map(
        lambda t: {"code": t[0], "k": "ips", "v": t[1]}),
    st.tuples(st.sampled_from(_DHCP_SECS), u(32)).map(lambda t: {"code": t[0], "k": "secs", "v": t[1]}),
    st.integers(1, 8).map(lambda v: {"code": 53, "k": "msgtype", "v": v}),
    st.one_of(st.lists(st.integers(1, 254), max_size=8), blen(0, 255).map(lambda n: [1 + i % 254 for i in range(n)])).map(lambda v: {"code": 55, "k": "params", "v": bytes(v)}),
    st.tuples(st.sampled_from(_DHCP_RAWK), pbytes(1, 600, small=20)).map(lambda t: {"code": t[0], "k": "raw", "v": t[1]}),
    st.tuples(st.integers(60, 254), pbytes(1, 600, small=20)).map(lambda t: {"code": t[0], "k": "raw", "v": t[1]}),
  )


def _uniq_codes(opts):
  seen, out = set(), []
  for o in opts:
    if o["code"] not in seen:
      seen.add(o["code"])
      out.append(o)
  return out


def dhcp():
  return st.fixed_dictionaries({
    "t": st.just("dhcp"), "op": st.one_of(st.sampled_from([1, 2]), u(8)), "htype": st.one_of(st.just(1), u(8)),
    "hlen": st.sampled_from([6, 6, 6, 0, 1, 8, 16]), "hops": u(8), "xid": u(32),
    "secs": u(16), "flags": st.one_of(st.sampled_from([0, 0x8000]), u(16)), "ci": ip4, "yi": ip4, "si": ip4, "gi": ip4, "chaddr": nbytes(16),
    "sname": st.one_of(st.just(b""), st.binary(max_size=63), st.sampled_from([b"s" * 63, b"s" * 64])),
    "file": st.one_of(st.just(b""), st.binary(max_size=127), st.sampled_from([b"f" * 127, b"f" * 128])),
    "opts": st.lists(_dhcp_opt(), max_size=6).map(_uniq_codes)})


def rip():
  e = st.fixed_dictionaries({"af": st.sampled_from([2, 0, 0xffff]), "tag": u(16), "ip": ip4, "mask": ip4, "nh": ip4, "metric": u(32)})
  return st.fixed_dictionaries({"t": st.just("rip"), "cmd": st.one_of(st.sampled_from([1, 2]), u(8)), "ver": st.one_of(st.sampled_from([1, 2]), u(8)),
                                "entries": st.one_of(st.lists(e, min_size=1, max_size=5), st.lists(e, min_size=24, max_size=25))})


def lldp():
  sid = pbytes(1, 510, small=16)
  chassis = st.one_of(mac.map(lambda m: {"k": "chassis", "sub": 4, "id": m}),
                      st.tuples(st.sampled_from([1, 2, 3, 5, 6, 7]), sid).map(lambda t: {"k": "chassis", "sub": t[0], "id": t[1]}))
  port = st.one_of(mac.map(lambda m: {"k": "port", "sub": 3, "id": m}),
                   st.tuples(st.sampled_from([1, 2, 4, 5, 6, 7]), sid).map(lambda t: {"k": "port", "sub": t[0], "id": t[1]}))
  ttl = u(16).map(lambda v: {"k": "ttl", "v": v})
  text = pbytes(0, 511, small=40)
  opt = st.one_of(
    text.map(lambda v: {"k": "portdesc", "v": v}), text.map(lambda v: {"k": "sysname", "v": v}), text.map(lambda v: {"k": "sysdesc", "v": v}),
    st.tuples(u(16), u(16)).map(lambda t: {"k": "syscap", "cap": t[0], "en": t[1]}),
    st.tuples(st.integers(0, 255), pbytes(1, 254, small=16), st.integers(1, 3), u(32), pbytes(0, 200, small=8)).map(
        lambda t: {"k": "mgmt", "asub": t[0], "addr": t[1], "isub": t[2], "ifnum": t[3], "oid": t[4]}),
    st.tuples(nbytes(3), u(8), pbytes(0, 507)).map(lambda t: {"k": "org", "oui": t[0], "sub": t[1], "data": t[2]}),
    st.tuples(st.integers(9, 126), pbytes(0, 511, small=16)).map(lambda t: {"k": "unk", "type": t[0], "data": t[1]}),
  )
  return st.tuples(chassis, port, ttl, st.one_of(st.lists(opt, max_size=5), st.lists(opt, max_size=5), st.lists(opt, min_size=10, max_size=20))).map(
      lambda t: {"t": "lldp", "tlvs": [t[0], t[1], t[2]] + t[3] + [{"k": "end"}]})


def _nd_opt():
  return st.one_of(
    mac.map(lambda m: {"k": "sll", "addr": m}), mac.map(lambda m: {"k": "tll", "addr": m}),
    u(32).map(lambda v: {"k": "mtu", "mtu": v}),
    st.tuples(st.integers(0, 128), st.booleans(), st.booleans(), u(32), u(32), ip6).map(
        lambda t: {"k": "prefix", "plen": t[0], "on_link": t[1], "auto": t[2], "valid": t[3], "pref": t[4], "prefix": t[5]}),
    st.tuples(st.sampled_from([4, 6, 14, 25, 31, 200]), blen(0, 254, small=2), st.integers(0, 6)).map(
        lambda t: {"k": "gen", "type": t[0], "data": P.pattern(6 + 8 * t[1], t[2])}),
  )


_nd_opts = st.one_of(st.lists(_nd_opt(), max_size=3), st.lists(_nd_opt(), max_size=3), st.lists(_nd_opt(), min_size=8, max_size=16))


def nd():
  """(icmp6 record, message record)"""
  b = st.booleans()
  return st.tuples(st.one_of(st.just(0), u(8)), _nd_messages()).map(lambda t: [dict(t[1][0], code=t[0]), t[1][1]])


def _nd_messages():
  b = st.booleans()
  return st.one_of(
    _nd_opts.map(lambda o: [{"t": "icmp6", "type": 133, "code": 0}, {"t": "nd_rs", "opts": o}]),
    st.tuples(u(8), b, b, u(16), u(32), u(32), _nd_opts).map(lambda t: [{"t": "icmp6", "type": 134, "code": 0}, {
        "t": "nd_ra", "hlim": t[0], "managed": t[1], "other": t[2], "lifetime": t[3], "reachable": t[4], "retrans": t[5], "opts": t[6]}]),
    st.tuples(ip6, _nd_opts).map(lambda t: [{"t": "icmp6", "type": 135, "code": 0}, {"t": "nd_ns", "target": t[0], "opts": t[1]}]),
    st.tuples(ip6, b, b, b, _nd_opts).map(lambda t: [{"t": "icmp6", "type": 136, "code": 0}, {
        "t": "nd_na", "target": t[0], "r": t[1], "s": t[2], "o": t[3], "opts": t[4]}]),
  )


def igmp():
  return st.fixed_dictionaries({"t": st.just("igmp"), "vt": st.sampled_from([0x11, 0x12, 0x16, 0x17]), "mrt": u(8), "addr": ip4,
                                "extra": st.one_of(st.just(b""), st.binary(max_size=9))})


def igmp3():
  rec = st.fixed_dictionaries({"type": st.integers(1, 6), "aux": blen(0, 255, small=2).map(lambda n: P.pattern(4 * n, 3)),
                               "srcs": st.one_of(st.lists(ip4, max_size=3), blen(0, 300, small=3).map(lambda n: [bytes([10, 8, i // 256, i % 256]) for i in range(n)])),
                               "addr": ip4})
  return st.fixed_dictionaries({"t": st.just("igmp3"), "records": st.one_of(st.lists(rec, max_size=3), st.lists(rec, min_size=8, max_size=12)),
                                "extra": st.one_of(st.just(b""), st.binary(max_size=5))})


def gre(**kw):
  sre = st.tuples(st.integers(1, 0xffff), u(8), pbytes(1, 255, small=16)).map(list)
  d = {"t": st.just("gre"), "csum": st.sampled_from([None, None, "auto"]), "key": st.one_of(st.none(), u(32)),
       "seq": st.one_of(st.none(), u(32)), "ssr": st.booleans(), "rec": st.integers(0, 7),
       "routing": st.one_of(st.none(), st.none(), st.lists(sre, max_size=2)), "route_offset": st.one_of(st.just(0), u(16))}
  d.update(kw)
  return st.fixed_dictionaries(d).map(_gre_offset_word)


def _gre_offset_word(r):
  # the offset shares a 32-bit word with the checksum; the word exists when either the C or the R bit is set
  if r.get("csum") is None and r.get("routing") is None:
    r = dict(r, route_offset=0)
  return r


def mpls_stack():
  lab = st.fixed_dictionaries({"t": st.just("mpls"), "label": u(20), "tc": st.integers(0, 7), "ttl": u(8)})
  return st.lists(lab, min_size=1, max_size=4)


# --------------------------------------------------------------------------- stack shapes

def _cat(*parts):
  """concatenate strategies of records / record lists into one spec strategy"""
  def flat(vals):
    out = []
    for v in vals:
      if isinstance(v, list):
        out.extend(v)
      else:
        out.append(v)
    return out
  return st.tuples(*parts).map(flat)


def _embedded4():
  """an IPv4 datagram head as quoted in an ICMP error: header + at least 8 bytes"""
  return st.one_of(
    _cat(ipv4(), udp(), raw(0, 24)),
    _cat(ipv4(), tcp(), raw(0, 8)),
    _cat(ipv4(proto=_free_proto4()), raw(8, 32)),
  )


def shapes(maxpay=1500):
  """{shape name: strategy of specs}"""
  R = lambda lo=0: raw(lo, maxpay)
  arp = st.fixed_dictionaries({"t": st.just("arp"), "rarp": st.booleans(), "op": st.one_of(st.integers(1, 4), u(16)), "sha": mac,
                               "spa": ip4, "tha": mac, "tpa": ip4})
  icmp_other = st.integers(0, 255).map(lambda t: t if t not in (0, 3, 8, 11) else 13)
  icmp6_other = st.integers(0, 255).map(lambda t: t if t not in (1, 2, 3, 128, 129, 133, 134, 135, 136) else 130)
  inner_eth = _cat(eth(type=_free_ethertype()), raw(0, 64))
  S = {
    "eth-raw": _cat(eth(type=_free_ethertype()), R()),
    "vlan-raw": _cat(eth(), vlan(type=_free_ethertype()), R()),
    "qinq-raw": _cat(eth(), vlan(), vlan(type=_free_ethertype()), R()),
    "llc-raw": _cat(eth(), st.one_of(st.just([]), vlan().map(lambda v: [v])), llc_plain(), raw(0, min(maxpay, 1400))),
    "snap-raw": _cat(eth(), snap(oui=nbytes(3).map(lambda o: o if o != b"\0\0\0" else b"\0\0\x0c"), with_type=True), raw(0, min(maxpay, 1400))),
    "arp": _cat(l2(), arp, st.just({"t": "raw", "len": 0, "pat": 0, "fixed": True})),
    "arp-padded": _cat(l2(allow_snap=False), arp, raw(1, 18)),
    "ipv4-raw": _cat(l2(), ipv4(proto=_free_proto4()), R()),
    "ipv4-frag": _cat(l2(), ipv4(proto=u(8), flags=st.integers(0, 7), frag=st.one_of(st.sampled_from([1, 0x1fff]), st.integers(1, 0x1fff))), R()),
    "ipv4-udp": _cat(l2(), ipv4(), udp(), R()),
    "ipv4-tcp": _cat(l2(), ipv4(), tcp(), R()),
    "ipv4-icmp-echo": _cat(l2(), ipv4(), st.tuples(st.sampled_from([0, 8]), st.one_of(st.just(0), u(8))).map(lambda t: {"t": "icmp", "type": t[0], "code": t[1]}),
                           st.fixed_dictionaries({"t": st.just("echo"), "id": u(16), "seq": u(16)}), R()),
    "ipv4-icmp-unreach": _cat(l2(), ipv4(), u(8).map(lambda c: {"t": "icmp", "type": 3, "code": c}),
                              st.fixed_dictionaries({"t": st.just("unreach"), "unused": u(16), "mtu": u(16)}), _embedded4()),
    "ipv4-icmp-timex": _cat(l2(), ipv4(), st.one_of(st.integers(0, 1), u(8)).map(lambda c: {"t": "icmp", "type": 11, "code": c}),
                            st.fixed_dictionaries({"t": st.just("timex"), "unused": u(32)}), _embedded4()),
    "ipv4-icmp-other": _cat(l2(), ipv4(), st.tuples(icmp_other, u(8)).map(lambda t: {"t": "icmp", "type": t[0], "code": t[1]}), R()),
    "ipv4-igmp": _cat(l2(), ipv4(), igmp()),
    "ipv4-igmp3": _cat(l2(), ipv4(), igmp3()),
    "ipv4-gre-raw": _cat(l2(), ipv4(), gre(type=_free_ethertype().map(lambda t: t if t != 0x6558 else 0x88b5)), raw(0, min(maxpay, 1400))),
    "ipv4-gre-ipv4": _cat(l2(), ipv4(), gre(), ipv4(), udp(), raw(0, min(maxpay, 1400))),
    "ipv4-gre-eth": _cat(l2(), ipv4(), gre(), inner_eth),
    "ipv4-udp-dhcp": _cat(l2(), ipv4(), udp(free=False), dhcp()),
    "ipv4-udp-dns": _cat(l2(), ipv4(), st.fixed_dictionaries({"t": st.just("udp"), "mdns": st.booleans()}), dns()),
    "ipv4-udp-rip": _cat(l2(), ipv4(), udp(free=False), rip()),
    "ipv4-udp-vxlan": _cat(l2(), ipv4(), udp(free=False), st.one_of(st.none(), u(24)).map(lambda v: {"t": "vxlan", "vni": v}), inner_eth),
    "ipv6-raw": _cat(l2(), ipv6(nh=_free_nh6()), R()),
    # extension header chains that end exactly at the end of the packet
    "ipv6-ext-nonext": _cat(l2(), ipv6(nh=st.just(59), ext=st.lists(_ext_header(), min_size=1, max_size=4)),
                            st.just({"t": "raw", "len": 0, "pat": 0, "fixed": True})),
    "ipv6-ext-raw": _cat(l2(), ipv6(nh=_free_nh6(), ext=st.lists(_ext_header(), min_size=1, max_size=4)), raw(0, 8)),
    "ipv6-udp": _cat(l2(), ipv6(), udp(), R()),
    "ipv6-tcp": _cat(l2(), ipv6(), tcp(), R()),
    "ipv6-udp-dns": _cat(l2(), ipv6(), udp(free=False), dns()),
    "ipv6-icmp6-echo": _cat(l2(), ipv6(), st.tuples(st.sampled_from([128, 129]), st.one_of(st.just(0), u(8))).map(lambda t: {"t": "icmp6", "type": t[0], "code": t[1]}),
                            st.fixed_dictionaries({"t": st.just("echo6"), "id": u(16), "seq": u(16)}), R()),
    "ipv6-icmp6-nd": _cat(l2(), ipv6(), nd()),
    "ipv6-icmp6-toobig": _cat(l2(), ipv6(), st.one_of(st.just(0), u(8)).map(lambda c: {"t": "icmp6", "type": 2, "code": c}), u(32).map(lambda m: {"t": "toobig", "mtu": m}), raw(0, min(maxpay, 1200))),
    "ipv6-icmp6-timex": _cat(l2(), ipv6(), st.one_of(st.integers(0, 1), u(8)).map(lambda c: {"t": "icmp6", "type": 3, "code": c}), st.just({"t": "timex6"}), raw(0, min(maxpay, 1200))),
    "ipv6-icmp6-unreach": _cat(l2(), ipv6(), st.one_of(st.integers(0, 7), u(8)).map(lambda c: {"t": "icmp6", "type": 1, "code": c}),
                               u(32).map(lambda m: {"t": "unreach6", "unused": m}),
                               st.one_of(raw(0, 39).map(lambda r: [r]), _cat(ipv6(ext=st.just([])), udp(), raw(0, 32)))),
    "ipv6-icmp6-other": _cat(l2(), ipv6(), st.tuples(icmp6_other, u(8)).map(lambda t: {"t": "icmp6", "type": t[0], "code": t[1]}), R()),
    "lldp": _cat(eth(), st.one_of(st.just([]), vlan().map(lambda v: [v])), lldp()),
    "mpls": _cat(eth(), st.one_of(st.just([]), vlan().map(lambda v: [v])), mpls_stack(), R()),
    "eapol-nobody": _cat(eth(), st.tuples(u(8), st.sampled_from([1, 2])).map(lambda t: {"t": "eapol", "ver": t[0], "type": t[1]}),
                         st.just({"t": "raw", "len": 0, "pat": 0, "fixed": True})),
    "eapol-eap": _cat(eth(), u(8).map(lambda v: {"t": "eapol", "ver": v, "type": 0}),
                      st.one_of(st.tuples(st.sampled_from([3, 4]), u(8)).map(lambda t: [{"t": "eap", "code": t[0], "id": t[1]}, {"t": "raw", "len": 0, "pat": 0, "fixed": True}]),
                                st.tuples(st.sampled_from([1, 2]), u(8), st.sampled_from([1, 2, 3, 4, 5, 6, 254, 255]), raw(0, 64)).map(
                                    lambda t: [{"t": "eap", "code": t[0], "id": t[1], "type": t[2]}, t[3]]))),
    "eapol-key": _cat(eth(), st.tuples(u(8), st.sampled_from([3, 4])).map(lambda t: {"t": "eapol", "ver": t[0], "type": t[1]}), raw(1, 128)),
  }
  return S


DECODED_IGMP_TYPES = (0x11, 0x12, 0x16, 0x17, 0x22)


def _not(values, other):
  """strategy transformer: a value of the range that is none of `values` (constructive: mapped, never rejected)"""
  return lambda v: v if v not in values else other


@st.composite
def arp_other_format(draw):
  """an RFC 826 packet in a format other than Ethernet / IPv4: at least one of hardware type, protocol type and hardware
  address length differs (the mask is drawn first so that every combination is equally likely)"""
  mask = draw(st.integers(1, 7))
  hwtype = draw(st.one_of(st.sampled_from([6, 0, 2, 15, 32, 0xffff, 0x0100]), u(16)).map(_not((1,), 6))) if mask & 1 else 1
  proto = draw(st.one_of(st.sampled_from([0x86dd, 0x0805, 0, 0xffff, 0x0008]), u(16)).map(_not((0x0800,), 0x86dd))) if mask & 2 else 0x0800
  hwlen = draw(st.one_of(st.sampled_from([0, 1, 5, 7, 8, 16, 20, 255]), st.integers(0, 255)).map(_not((6,), 8))) if mask & 4 else 6
  addr = nbytes(hwlen) if hwlen else st.just(b"")
  rec = {"t": "arp", "rarp": draw(st.booleans()), "op": draw(st.one_of(st.integers(1, 4), u(16))), "hwtype": hwtype, "prototype": proto,
         "sha": draw(addr), "spa": draw(ip4), "tha": draw(addr), "tpa": draw(ip4)}
  if hwlen != 6:
    rec["hwlen"] = hwlen
  return rec


def igmp_other_type():
  """an IGMP-numbered message of a type POX's igmp class does not decode (DVMRP 0x13, PIMv1 0x14, mtrace 0x1e / 0x1f,
  multicast router discovery 0x30..0x32, anything else): 8 octet header + rest, checksum over all of it"""
  vt = st.one_of(st.sampled_from([0x13, 0x14, 0x1e, 0x1f, 0x30, 0x31, 0x32, 0, 0xff, 0x10, 0x18, 0x21, 0x23]), u(8)).map(
      _not(DECODED_IGMP_TYPES, 0x13))
  return st.fixed_dictionaries({"t": st.just("igmp"), "vt": vt, "mrt": u(8), "addr": ip4,
                                "extra": st.one_of(st.just(b""), st.binary(max_size=9), pbytes(0, 64))})


def undecoded_shapes():
  """{shape name: strategy of specs} for stacks the library can assemble but whose innermost header its parser, as documented,
  does not decode (it keeps the bytes).  Kept apart from shapes(): C15 draws its mutation bases from shapes()."""
  none = st.just({"t": "raw", "len": 0, "pat": 0, "fixed": True})
  return {
    "arp-other-format": _cat(l2(), arp_other_format(), none),
    "arp-other-format-padded": _cat(l2(allow_snap=False), arp_other_format(), raw(1, 18)),
    "ipv4-igmp-other-type": _cat(l2(), ipv4(), igmp_other_type()),
  }


def any_spec(maxpay=64):
  s = shapes(maxpay)
  return st.one_of(*[s[k] for k in sorted(s)])
