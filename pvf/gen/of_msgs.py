"""Builders and Hypothesis strategies for POX OpenFlow 1.0 / Nicira codec objects.

A *fragment* is JSON-able case data {"k": <kind>, "f": {<field>: <value>}} in the vocabulary of
pvf/ref/of10_layout.py (kinds are POX class names; see that module for the value forms, the
{"$rep": n, "of": [...]} list element and the {"$bytes": [n, seed]} payload form).

  build(fragment)      -> the POX object, built through the public constructors / attributes with
                          exactly the fields the fragment names (absent fields keep POX's defaults)
  complete(fragment)   -> the fragment with every absent field filled with the constructor default
                          that POX documents, i.e. what the caller asked for; ref.encode(complete(f))
                          is the specified encoding of build(f)
  fields_of(obj)       -> normal-form field dict read from the public attributes of a POX object
                          (the same form ref.decode() yields)
  message(direction)   -> strategy of message fragments; direction in {"to_switch",
                          "to_controller", "any"}.  safe=True (default) leaves out the few shapes
                          whose POX codec is known to be broken (see SAFE_NOTE) so that framing /
                          connection tests can use the stream; C01 itself uses safe=False.
  wire(fragment)       -> bytes of the fragment by the reference encoder (no POX involved)

Other agents: `build(message(...).example())`, `.pack()` it or use `wire()`.
"""
from hypothesis import strategies as st

from ..ref import of10_layout as R

SAFE_NOTE = ("safe=True omits: ofp_table_stats / vendor statistics bodies, ofp_queue_prop_none/generic, "
             "statistics requests of unknown type, and all Nicira kinds")

NO_BUFFER = 0xffffffff
OFPP_NONE = 0xffff
OFPP_ALL = 0xfffc
OFPP_CONTROLLER = 0xfffd
ZMAC = b"\0" * 6

# --------------------------------------------------------------------------- POX constructor defaults
_PHY = {"port_no": 0, "hw_addr": ZMAC, "name": "", "config": 0, "state": 0, "curr": 0, "advertised": 0,
        "supported": 0, "peer": 0}
REQUIRED = object()
DEFAULTS = {
  "ofp_hello": {}, "ofp_features_request": {}, "ofp_get_config_request": {}, "ofp_barrier_request": {},
  "ofp_barrier_reply": {},
  "ofp_error": {"type": 0, "code": 0, "data": b""},
  "ofp_echo_request": {"body": b""}, "ofp_echo_reply": {"body": b""},
  "ofp_vendor_generic": {"vendor": 0, "data": b""},
  "ofp_features_reply": {"datapath_id": 0, "n_buffers": 0, "n_tables": 0, "capabilities": 0, "actions": 0, "ports": []},
  "ofp_get_config_reply": {"flags": 0, "miss_send_len": 128},
  "ofp_set_config": {"flags": 0, "miss_send_len": 128},
  "ofp_packet_in": {"buffer_id": NO_BUFFER, "total_len": None, "in_port": OFPP_NONE, "reason": 0, "data": b""},
  "ofp_flow_removed": {"match": {}, "cookie": 0, "priority": 0, "reason": 0, "duration_sec": 0, "duration_nsec": 0,
                       "idle_timeout": 0, "packet_count": 0, "byte_count": 0},
  "ofp_port_status": {"reason": 0, "desc": _PHY},
  "ofp_packet_out": {"buffer_id": NO_BUFFER, "in_port": OFPP_NONE, "actions": [], "data": b""},
  "ofp_flow_mod": {"match": {}, "cookie": 0, "command": 0, "idle_timeout": 0, "hard_timeout": 0, "priority": 0x8000,
                   "buffer_id": NO_BUFFER, "out_port": OFPP_NONE, "flags": 0, "actions": []},
  "ofp_port_mod": {"port_no": 0, "hw_addr": ZMAC, "config": 0, "mask": 0, "advertise": 0},
  "ofp_stats_request": {"type": None, "flags": 0, "body": b""},
  "ofp_stats_reply": {"type": None, "flags": 0, "body": b""},
  "ofp_queue_get_config_request": {"port": 0},
  "ofp_queue_get_config_reply": {"port": 0, "queues": []},
  "ofp_packet_queue": {"queue_id": 0, "properties": []},
  "ofp_queue_prop_min_rate": {"rate": 0},
  "ofp_queue_prop_none": {"data": b"\0\0\0\0"},
  "ofp_queue_prop_generic": {"property": REQUIRED, "data": b"\0\0\0\0"},
  "ofp_phy_port": _PHY,
  "ofp_match": {},
  "ofp_action_output": {"port": REQUIRED, "max_len": 0xffff},
  "ofp_action_enqueue": {"port": REQUIRED, "queue_id": 0},
  "ofp_action_strip_vlan": {},
  "ofp_action_vlan_vid": {"vlan_vid": 0}, "ofp_action_vlan_pcp": {"vlan_pcp": 0},
  "ofp_action_dl_addr": {"type": REQUIRED, "dl_addr": ZMAC},
  "ofp_action_nw_addr": {"type": REQUIRED, "nw_addr": 0},
  "ofp_action_nw_tos": {"nw_tos": 0},
  "ofp_action_tp_port": {"type": REQUIRED, "tp_port": 0},
  "ofp_action_vendor_generic": {"vendor": 0, "body": b""},
  "ofp_action_generic": {"type": REQUIRED, "data": b"\0\0\0\0"},
  "ofp_desc_stats_request": {}, "ofp_table_stats_request": {},
  "ofp_flow_stats_request": {"match": {}, "table_id": 0xff, "out_port": OFPP_NONE},
  "ofp_aggregate_stats_request": {"match": {}, "table_id": 0xff, "out_port": OFPP_NONE},
  "ofp_port_stats_request": {"port_no": OFPP_NONE},
  "ofp_queue_stats_request": {"port_no": OFPP_ALL, "queue_id": 0xffffffff},
  "ofp_vendor_stats_generic": {"vendor": REQUIRED, "data": b""},
  "ofp_generic_stats_body": {"data": b""},
  "ofp_desc_stats": {"mfr_desc": "", "hw_desc": "", "sw_desc": "", "serial_num": "", "dp_desc": ""},
  "ofp_flow_stats": {"table_id": 0, "match": {}, "duration_sec": 0, "duration_nsec": 0, "priority": 0x8000,
                     "idle_timeout": 0, "hard_timeout": 0, "cookie": 0, "packet_count": 0, "byte_count": 0, "actions": []},
  "ofp_aggregate_stats": {"packet_count": 0, "byte_count": 0, "flow_count": 0},
  "ofp_table_stats": {"table_id": 0, "name": "", "wildcards": 0, "max_entries": 0, "active_count": 0,
                      "lookup_count": 0, "matched_count": 0},
  "ofp_port_stats": dict([("port_no", OFPP_NONE)] + [(n, 0) for n in (
      "rx_packets", "tx_packets", "rx_bytes", "tx_bytes", "rx_dropped", "tx_dropped", "rx_errors", "tx_errors",
      "rx_frame_err", "rx_over_err", "rx_crc_err", "collisions")]),
  "ofp_queue_stats": {"port_no": 0, "queue_id": 0, "tx_bytes": 0, "tx_packets": 0, "tx_errors": 0},
  # ---- Nicira
  "nxm_entry": {}, "nx_match": {"entries": []},
  "nx_role_request": {"role": 0}, "nx_role_reply": {"role": 0},
  "nx_flow_mod_table_id": {"set": 1},
  "nx_packet_in_format": {"format": 1},
  "nx_async_config": {"packet_in_mask": 0, "packet_in_mask_slave": 0, "port_status_mask": 0,
                      "port_status_mask_slave": 0, "flow_removed_mask": 0, "flow_removed_mask_slave": 0},
  "ofp_flow_mod_table_id": {"match": {}, "cookie": 0, "command": 0, "idle_timeout": 0, "hard_timeout": 0,
                            "priority": 0x8000, "buffer_id": NO_BUFFER, "out_port": OFPP_NONE, "flags": 0,
                            "actions": [], "table_id": 0xff},
  "nx_flow_mod": {"cookie": 0, "command": 0, "table_id": 0, "idle_timeout": 0, "hard_timeout": 0, "priority": 0x8000,
                  "buffer_id": NO_BUFFER, "out_port": OFPP_NONE, "flags": 0, "match": [], "actions": []},
  "nxt_packet_in": {"buffer_id": NO_BUFFER, "total_len": None, "reason": 0, "table_id": 0, "cookie": 0,
                    "match": [], "data": b""},
  "nx_action_resubmit": {"subtype": 1, "in_port": REQUIRED, "table": REQUIRED},
  "nx_action_set_tunnel": {"tun_id": REQUIRED}, "nx_action_set_tunnel64": {"tun_id": REQUIRED},
  "nx_reg_move": {"nbits": REQUIRED, "src_ofs": 0, "dst_ofs": 0, "src": REQUIRED, "dst": REQUIRED},
  "nx_reg_load": {"ofs_nbits": REQUIRED, "dst": REQUIRED, "value": REQUIRED},
  "nx_output_reg": {"ofs_nbits": REQUIRED, "reg": REQUIRED, "max_len": 0},
  "nx_action_exit": {}, "nx_action_dec_ttl": {},
  "nx_action_fin_timeout": {"fin_idle_timeout": 1, "fin_hard_timeout": 1},
  "nx_action_controller": {"max_len": 0xffff, "controller_id": 0, "reason": 1},
  "nx_action_push_mpls": {"ethertype": 0x8847}, "nx_action_pop_mpls": {"ethertype": REQUIRED},
  "nx_action_mpls_label": {"label": REQUIRED}, "nx_action_mpls_tc": {"tc": REQUIRED},
  "nx_action_learn": {"idle_timeout": 0, "hard_timeout": 0, "priority": 0x8000, "cookie": 0, "flags": 0,
                      "table_id": 0, "fin_idle_timeout": 0, "fin_hard_timeout": 0, "spec": []},
  "nx_action_bundle": {"subtype": 12, "algorithm": 0, "fields": 0, "basis": 0,
                       "slave_type": R.nxm_header("NXM_OF_IN_PORT"), "ofs_nbits": 0, "dst": 0, "slaves": []},
}
MESSAGE_KINDS_TO_SWITCH = ["ofp_hello", "ofp_echo_request", "ofp_echo_reply", "ofp_vendor_generic", "ofp_features_request",
                           "ofp_get_config_request", "ofp_set_config", "ofp_packet_out", "ofp_flow_mod", "ofp_port_mod",
                           "ofp_stats_request", "ofp_barrier_request", "ofp_queue_get_config_request"]
MESSAGE_KINDS_TO_CONTROLLER = ["ofp_hello", "ofp_error", "ofp_echo_request", "ofp_echo_reply", "ofp_vendor_generic",
                               "ofp_features_reply", "ofp_get_config_reply", "ofp_packet_in", "ofp_flow_removed",
                               "ofp_port_status", "ofp_stats_reply", "ofp_barrier_reply", "ofp_queue_get_config_reply"]
OF10_MESSAGE_KINDS = sorted(set(MESSAGE_KINDS_TO_SWITCH + MESSAGE_KINDS_TO_CONTROLLER))
OF10_ACTION_KINDS = list(R.ACTIONS) + ["ofp_action_generic"]
STATS_REQUEST_KINDS = list(R.STATS_REQUEST) + ["ofp_generic_stats_body"]
STATS_REPLY_KINDS = ["ofp_desc_stats", "ofp_flow_stats", "ofp_aggregate_stats", "ofp_table_stats", "ofp_port_stats",
                     "ofp_queue_stats", "ofp_vendor_stats_generic"]
QUEUE_KINDS = ["ofp_queue_prop_min_rate", "ofp_queue_prop_none", "ofp_queue_prop_generic", "ofp_packet_queue"]
NX_MESSAGE_KINDS = list(R.NX_MESSAGES) + ["ofp_flow_mod_table_id", "nx_flow_mod", "nxt_packet_in"]
NX_ACTION_KINDS = list(R.NX_ACTIONS) + ["nx_action_learn", "nx_action_bundle"]


def is_message(kind):
  return R.is_message(kind)


# --------------------------------------------------------------------------- complete()

def _complete_list(lst):
  out = []
  for e in lst:
    if isinstance(e, dict) and "$rep" in e:
      out.append({"$rep": e["$rep"], "of": _complete_list(e["of"])})
    elif isinstance(e, dict) and "k" in e:
      out.append(complete(e))
    else:
      out.append(e)
  return out


def _norm_nxm(e):
  e = dict(e)
  e.setdefault("mask", None)
  e["value"] = R.expand_bytes(e["value"])
  if e["mask"] is not None and set(e["mask"]) == {0xff}:
    e["mask"] = None      # an all-ones mask is the same match as no mask; NXM writes it without one
  e.pop("via", None)
  return e


def complete(frag):
  """Fill constructor defaults, recursively, and apply the two normalisations POX documents for the
  *caller's* data: ofp_action_output.max_len is only meaningful for OFPP_CONTROLLER (written as 0
  otherwise), and packet_in.total_len defaults to len(data)."""
  kind = frag["k"]
  f = dict(DEFAULTS[kind])
  f.update(frag["f"])
  for k, v in f.items():
    if v is REQUIRED:
      raise ValueError("fragment of %s lacks required field %s" % (kind, k))
  f = _strip(f)
  if kind == "ofp_action_output" and f["port"] != OFPP_CONTROLLER:
    f["max_len"] = 0
  if kind in ("ofp_packet_in", "nxt_packet_in") and f["total_len"] is None:
    f["total_len"] = len(R.expand_bytes(f["data"]))
  if kind in ("ofp_stats_request", "ofp_stats_reply"):
    body = f["body"]
    if isinstance(body, list):
      body = f["body"] = _complete_list(body)
    elif isinstance(body, dict) and "k" in body:
      body = f["body"] = complete(body)
    if f["type"] is None:
      b0 = body
      if isinstance(body, list):
        ex = R.expand_list(body)
        b0 = ex[0] if ex else None
      if not (isinstance(b0, dict) and "k" in b0):
        raise ValueError("statistics type cannot be inferred")
      f["type"] = R.stats_type_of(b0["k"], kind == "ofp_stats_reply")
  if kind in ("nx_flow_mod", "nxt_packet_in"):
    f["match"] = [_norm_nxm(e) for e in f["match"]]
  if kind == "nx_match":
    f = {"entries": [_norm_nxm(e) for e in f["entries"]]}
  if kind == "nxm_entry":
    f = _norm_nxm(f)
  for name in ("actions", "properties"):
    if isinstance(f.get(name), list):
      f[name] = _complete_list(f[name])
  if isinstance(f.get("match"), dict):
    f["match"] = _strip(f["match"])
  if kind == "ofp_port_status":
    d = dict(_PHY)
    d.update(_strip(f["desc"]))
    f["desc"] = d
  if "ports" in f:
    f["ports"] = [_rep_or(p, lambda x: dict(_PHY, **_strip(x))) for p in f["ports"]]
  if "queues" in f:
    f["queues"] = [_rep_or(q, lambda x: complete({"k": "ofp_packet_queue", "f": x})["f"]) for q in f["queues"]]
  return {"k": kind, "f": f}


def _strip(d):
  """drop the "$..." keys, which say how to hand the values to the constructor, not what they are"""
  return {k: v for k, v in d.items() if not k.startswith("$")}


def _rep_or(e, fn):
  if isinstance(e, dict) and "$rep" in e:
    return {"$rep": e["$rep"], "of": [_rep_or(x, fn) for x in e["of"]]}
  return fn(e)


def wire(frag):
  return R.encode(complete(frag))


# --------------------------------------------------------------------------- build()
_mods = None


def _pox():
  global _mods
  if _mods is None:
    import pox.openflow.libopenflow_01 as of
    import pox.lib.addresses as A
    _mods = (of, A)
  return _mods


_nxmod = None


def _nx():
  global _nxmod
  if _nxmod is None:
    import pox.openflow.nicira as nx
    _nxmod = nx
  return _nxmod


def _kw(f, conv=None):
  kw = {}
  for k, v in f.items():
    if k.startswith("$"):
      continue
    kw[k] = conv[k](v) if conv and k in conv else v
  return kw


def _dotted(n):
  return "%d.%d.%d.%d" % (n >> 24, (n >> 16) & 255, (n >> 8) & 255, n & 255)


def build_match(m, form="tuple"):
  """form: how addresses are handed to the constructor -- "tuple" (IPAddr, bits) / "cidr" "a.b.c.d/n" text /
  "text-tuple" ("a.b.c.d", bits) / "raw": Ethernet addresses as 6 raw octets, /32 addresses as bare IPAddr"""
  of, A = _pox()
  kw = {}
  form = m.get("$form", form)
  for k, v in m.items():
    if k == "$form":
      continue
    if k in ("dl_src", "dl_dst"):
      kw[k] = bytes(v) if form == "raw" else A.EthAddr(bytes(v))
    elif k in ("nw_src", "nw_dst"):
      if form == "cidr" and v[0] & ((1 << (32 - v[1])) - 1) == 0:   # CIDR text must have a zero host part
        kw[k] = "%s/%d" % (_dotted(v[0]), v[1])
      elif form == "text-tuple":
        kw[k] = (_dotted(v[0]), v[1])
      elif form == "raw" and v[1] == 32:
        kw[k] = A.IPAddr(v[0])
      else:
        kw[k] = (A.IPAddr(v[0]), v[1])
    else:
      kw[k] = v
  return of.ofp_match(**kw)


def _b(v):
  return R.expand_bytes(v)


def build_list(lst):
  return [build(e) for e in R.expand_list(lst)]


def build(frag):
  """fragment -> POX object (public constructors only)."""
  of, A = _pox()
  kind, f = frag["k"], frag["f"]
  mac = lambda v: A.EthAddr(bytes(v))
  form = f.get("$form", "tuple")
  if form == "raw":
    mac = lambda v: bytes(v)          # hw_addr may be given as 6 raw octets
  if kind == "ofp_match":
    return build_match({k: v for k, v in f.items() if k != "$form"}, form)
  if kind == "ofp_phy_port":
    return of.ofp_phy_port(**_kw(f, {"hw_addr": mac}))
  if kind in R.MESSAGES or kind in ("ofp_packet_out", "ofp_stats_request", "ofp_stats_reply", "ofp_flow_mod_table_id"):
    cls = _nx().ofp_flow_mod_table_id if kind == "ofp_flow_mod_table_id" else getattr(of, kind)
    conv = {
      "data": _b, "body": _b, "hw_addr": mac, "match": build_match,
      "actions": lambda v: build_list(v) if isinstance(v, list) else v,
      "ports": lambda ps: [build({"k": "ofp_phy_port", "f": p}) for p in R.expand_list(ps)],
      "desc": lambda d: build({"k": "ofp_phy_port", "f": d}),
      "queues": lambda qs: [build({"k": "ofp_packet_queue", "f": q}) for q in R.expand_list(qs)],
    }
    if kind in ("ofp_stats_request", "ofp_stats_reply"):
      def conv_body(b):
        if isinstance(b, list):
          # "$form": "tuple" hands the entries over as a tuple (pack() accepts any list-like body)
          return tuple(build_list(b)) if form == "tuple-body" else build_list(b)
        if isinstance(b, dict) and "k" in b:
          return build(b)
        return _b(b)
      conv["body"] = conv_body
      f = {k: v for k, v in f.items() if not (k == "type" and v is None)}
    if kind == "ofp_packet_in" and f.get("total_len", 0) is None:
      f = {k: v for k, v in f.items() if k != "total_len"}
    return cls(**_kw(f, conv))
  if kind in R.ACTIONS or kind == "ofp_action_generic":
    cls = getattr(of, kind)
    if kind == "ofp_action_strip_vlan":
      return cls()
    if kind == "ofp_action_dl_addr":
      return cls(f["type"], mac(f["dl_addr"])) if "dl_addr" in f else cls(f["type"])
    if kind == "ofp_action_nw_addr":
      return cls(f["type"], A.IPAddr(f["nw_addr"])) if "nw_addr" in f else cls(f["type"])
    if kind == "ofp_action_tp_port":
      return cls(f["type"], f["tp_port"]) if "tp_port" in f else cls(f["type"])
    if kind == "ofp_action_nw_tos":
      return cls(**_kw(f))
    return cls(**_kw(f, {"data": _b, "body": _b}))
  if kind in R.STATS_REQUEST or kind in R.STATS_REPLY or kind in ("ofp_flow_stats", "ofp_generic_stats_body"):
    return getattr(of, kind)(**_kw(f, {"match": build_match, "actions": build_list, "data": _b}))
  if kind == "ofp_packet_queue":
    return of.ofp_packet_queue(**_kw(f, {"properties": build_list}))
  if kind in ("ofp_queue_prop_min_rate", "ofp_queue_prop_none", "ofp_queue_prop_generic"):
    return getattr(of, kind)(**_kw(f, {"data": _b}))
  return _build_nx(kind, f)


# --------------------------------------------------------------------------- fields_of()

def _mac_of(v):
  if isinstance(v, (bytes, bytearray)):
    return bytes(v)
  return v.toRaw()


def match_fields(m):
  """Semantic field dict of an ofp_match from its public attributes."""
  out = {}
  for name in ("in_port", "dl_vlan", "dl_vlan_pcp", "dl_type", "nw_tos", "nw_proto", "tp_src", "tp_dst"):
    v = getattr(m, name)
    if v is not None:
      out[name] = v
  for name in ("dl_src", "dl_dst"):
    v = getattr(m, name)
    if v is not None:
      out[name] = _mac_of(v)
  for name, get in (("nw_src", m.get_nw_src), ("nw_dst", m.get_nw_dst)):
    ip, bits = get()
    if ip is not None and bits > 0:
      out[name] = [ip if isinstance(ip, int) else ip.toUnsigned(), bits]
  return out


def frag_of(obj):
  return {"k": type(obj).__name__, "f": fields_of(obj)}


def fields_of(obj, kind=None):
  kind = kind or type(obj).__name__
  if kind == "ofp_match":
    return match_fields(obj)
  if kind in ("nx_match", "nxm_entry") or kind.startswith("NXM_") or kind.startswith("OXM_"):
    return _fields_of_nx(obj, kind)
  if kind in ("nx_flow_mod", "nxt_packet_in", "nx_action_learn", "nx_action_bundle", "nx_reg_move", "nx_reg_load",
              "nx_output_reg", "nx_flow_mod_table_id"):
    return _fields_of_nx(obj, kind)
  out = {}
  for ent in R.layout_of(kind):
    name, typ = ent[0], ent[1]
    if name is None or name.startswith("$"):
      continue
    if kind == "ofp_packet_queue" and name == "$len":
      continue
    v = getattr(obj, name)
    if typ in ("u8", "u16", "u32", "u64"):
      if name == "buffer_id" and v is None:
        v = NO_BUFFER
      if name == "nw_addr" and not isinstance(v, int):
        v = v.toUnsigned()
      out[name] = v
    elif typ == "mac":
      out[name] = _mac_of(v)
    elif typ == "str":
      out[name] = v
    elif typ == "match":
      out[name] = match_fields(v)
    elif typ == "struct":
      out[name] = fields_of(v)
    elif typ in ("actions", "props"):
      out[name] = [frag_of(a) for a in v]
    elif typ == "list":
      out[name] = [fields_of(x) for x in v]
    elif typ == "bytes":
      out[name] = v if isinstance(v, bytes) else (b"" if v is None else v)
    elif typ == "body":
      if isinstance(v, (list, tuple)):
        out[name] = [frag_of(x) for x in v]
      elif isinstance(v, (bytes, bytearray)):
        out[name] = bytes(v)
      elif type(v).__name__ == "ofp_generic_stats_body":
        out[name] = bytes(v.data)       # the container POX uses for statistics types it has no class for
      else:
        out[name] = frag_of(v)
    else:
      raise ValueError("fields_of: layout entry %r of %s" % (ent, kind))
  return out


# --------------------------------------------------------------------------- Nicira build / fields_of

def nxm_value_to_py(name, raw):
  """The natural Python value POX's entry class takes for the raw payload octets."""
  of, A = _pox()
  nx = _nx()
  cls = getattr(nx, name)
  if issubclass(cls, nx._nxm_ether):
    return A.EthAddr(bytes(raw))
  if issubclass(cls, nx._nxm_ipv6):
    return A.IPAddr6(bytes(raw), raw=True)
  if issubclass(cls, nx._nxm_ip):
    return A.IPAddr(bytes(raw))
  return int.from_bytes(raw, "big")


def build_nxm(e):
  nx = _nx()
  cls = getattr(nx, e["field"])
  value = nxm_value_to_py(e["field"], _b(e["value"]))
  if e.get("mask") is None:
    return cls(value)
  return cls(value, nxm_value_to_py(e["field"], e["mask"]))


def build_nx_match(entries, via="parts"):
  nx = _nx()
  if via == "parts":
    return nx.nx_match(*[build_nxm(e) for e in entries])
  if via == "append":
    m = nx.nx_match()
    for e in entries:
      m.append(build_nxm(e))
    return m
  if via == "attr":
    m = nx.nx_match()
    for e in entries:
      value = nxm_value_to_py(e["field"], _b(e["value"]))
      if e.get("mask") is None:
        setattr(m, e["field"], value)
      else:
        setattr(m, e["field"] + "_with_mask", (value, nxm_value_to_py(e["field"], e["mask"])))
    return m
  if via == "kw":
    return nx.nx_match(**{e["field"]: nxm_value_to_py(e["field"], _b(e["value"])) for e in entries})
  if via == "attr-entry":
    m = nx.nx_match()
    for e in entries:
      setattr(m, e["field"] + "_entry", build_nxm(e))
    return m
  raise ValueError(via)


def _nxm_class_for_header(h):
  nx = _nx()
  name = R._nxm_name(h)
  return getattr(nx, name)


def _build_learn_spec(s):
  nx = _nx()
  src, dst = s["src"], s["dst"]
  if src["t"] == "field":
    so = nx.nx_learn_src_field(getattr(nx, src["field"]), src["ofs"], s["n_bits"])
  else:
    so = nx.nx_learn_src_immediate(_b(src["data"]), s["n_bits"])
  if dst["t"] == "match":
    do = nx.nx_learn_dst_match(getattr(nx, dst["field"]), dst["ofs"], s["n_bits"])
  elif dst["t"] == "load":
    do = nx.nx_learn_dst_load(getattr(nx, dst["field"]), dst["ofs"], s["n_bits"])
  else:
    do = nx.nx_learn_dst_output()
  return nx.flow_mod_spec(so, do, s["n_bits"])


def _build_nx(kind, f):
  of, A = _pox()
  nx = _nx()
  if kind == "nxm_entry":
    return build_nxm(f)
  if kind == "nx_match":
    return build_nx_match(f["entries"], f.get("$via", "parts"))
  if kind in R.NX_MESSAGES:
    cls = getattr(nx, kind)
    if kind == "nx_flow_mod_table_id":
      f = {("enable" if k == "set" else k): (bool(v) if k == "set" else v) for k, v in f.items()}
    return cls(**_kw(f))
  if kind == "nx_flow_mod":
    kw = _kw(f, {"actions": build_list})
    if "match" in f:
      kw["match"] = build_nx_match(f["match"], f.get("$via", "parts"))
    return nx.nx_flow_mod(**kw)
  if kind == "nxt_packet_in":
    kw = _kw(f, {"data": _b})
    if "match" in f:
      kw["match"] = build_nx_match(f["match"], f.get("$via", "parts"))
    if kw.get("total_len", 0) is None:
      del kw["total_len"]
    return nx.nxt_packet_in(**kw)
  if kind == "nx_reg_load" and f.get("$form") == "entry":
    # documented alternative: dst is an nxm_entry *instance* carrying the value to load
    cls = _nxm_class_for_header(f["dst"])
    n = R.NXM_FIELDS[R._nxm_name(f["dst"])][2]
    raw = (f["value"] & ((1 << (8 * n)) - 1)).to_bytes(n, "big")
    kw = {"dst": cls(nxm_value_to_py(cls.__name__, raw)), "offset": f["ofs_nbits"] >> 6, "nbits": (f["ofs_nbits"] & 0x3f) + 1}
    return nx.nx_reg_load(**kw)
  if kind in ("nx_reg_move", "nx_reg_load", "nx_output_reg"):
    kw = {}
    for k, v in f.items():
      if k.startswith("$"):
        continue
      if k in ("src", "dst", "reg"):
        kw[k] = _nxm_class_for_header(v)
      elif k == "ofs_nbits":
        kw["offset"], kw["nbits"] = v >> 6, (v & 0x3f) + 1
      else:
        kw[k] = v
    return getattr(nx, kind)(**kw)
  if kind == "nx_action_learn":
    kw = _kw(f)
    if "spec" in kw:
      chain = nx.flow_mod_spec_chain()
      for s in f["spec"]:
        chain.append(_build_learn_spec(s))
      kw["spec"] = chain
    return nx.nx_action_learn(**kw)
  if kind == "nx_action_bundle":
    kw = {}
    for k, v in f.items():
      if k == "subtype":
        if v == R.NXAST_BUNDLE_LOAD:
          kw["load"] = True
      elif k == "slave_type":
        kw[k] = _nxm_class_for_header(v)
      elif k == "dst":
        kw[k] = None if v == 0 else _nxm_class_for_header(v)
      elif k == "ofs_nbits":
        if f.get("dst", 0):
          kw["offset"], kw["nbits"] = v >> 6, (v & 0x3f) + 1
      elif k == "slaves":
        # canonical form: entries of the slave type; "$form": "int" uses the accepted shorthand of plain
        # integers (which decodes to entries, so equality is not demanded for it)
        st_cls = _nxm_class_for_header(f["slave_type"]) if "slave_type" in f else nx.NXM_OF_IN_PORT
        kw[k] = list(v) if f.get("$form") == "int" else [st_cls(x) for x in v]
      elif k.startswith("$"):
        pass
      else:
        kw[k] = v
    return nx.nx_action_bundle(**kw)
  if kind in R.NX_ACTIONS:
    return getattr(nx, kind)(**_kw(f))
  raise ValueError("build: unknown kind %r" % (kind,))


def _nxm_header_of_class(cls):
  return (cls._nxm_type << 9) | cls._nxm_length


def _nxm_fields(e):
  name = type(e).__name__
  v = e._value
  m = e._mask
  # public view: value / mask properties, re-expressed as payload octets
  val = e.value
  msk = e.mask
  return {"field": name, "value": _py_to_raw(name, val, len(v) if v is not None else None),
          "mask": None if msk is None else _py_to_raw(name, msk, len(v) if v is not None else None)}


def _py_to_raw(name, val, n):
  if isinstance(val, int):
    return val.to_bytes(R.NXM_FIELDS[name][2], "big")
  if hasattr(val, "toRaw"):
    return val.toRaw()
  if hasattr(val, "raw"):
    return val.raw
  return bytes(val)


def _fields_of_nx(obj, kind):
  nx = _nx()
  if kind == "nx_match":
    return {"entries": [_norm_nxm(_nxm_fields(e)) for e in obj]}
  if kind == "nxm_entry" or kind.startswith("NXM_") or kind.startswith("OXM_"):
    return _norm_nxm(_nxm_fields(obj))
  if kind == "nx_flow_mod_table_id":
    return {"xid": obj.xid, "set": 1 if obj.enable else 0}
  if kind == "nx_flow_mod":
    out = {}
    for n in ("xid", "cookie", "command", "table_id", "idle_timeout", "hard_timeout", "priority", "out_port", "flags"):
      out[n] = getattr(obj, n)
    out["buffer_id"] = NO_BUFFER if obj.buffer_id is None else obj.buffer_id
    out["match"] = [_norm_nxm(_nxm_fields(e)) for e in obj.match]
    out["actions"] = [frag_of(a) for a in obj.actions]
    return out
  if kind == "nxt_packet_in":
    out = {}
    for n in ("xid", "total_len", "reason", "table_id", "cookie"):
      out[n] = getattr(obj, n)
    out["buffer_id"] = NO_BUFFER if obj.buffer_id is None else obj.buffer_id
    out["match"] = [_norm_nxm(_nxm_fields(e)) for e in obj.match]
    out["data"] = obj.data
    return out
  if kind in ("nx_reg_move", "nx_reg_load", "nx_output_reg"):
    out = {}
    for ent in R.layout_of(kind):
      n = ent[0]
      if n is None:
        continue
      if n in ("src", "dst", "reg"):
        out[n] = _nxm_header_of_class(getattr(obj, n))
      elif n == "ofs_nbits":
        out[n] = (obj.offset << 6) | (obj.nbits - 1)
      else:
        out[n] = getattr(obj, n)
    return out
  if kind == "nx_action_learn":
    out = {n: getattr(obj, n) for n in ("idle_timeout", "hard_timeout", "priority", "cookie", "flags", "table_id",
                                        "fin_idle_timeout", "fin_hard_timeout")}
    specs = []
    for s in obj.spec:
      src, dst = s.src, s.dst
      if isinstance(src, nx.nx_learn_src_field):
        sd = {"t": "field", "field": src.field.__name__, "ofs": src.ofs}
      else:
        sd = {"t": "immediate", "data": src.data}
      if isinstance(dst, nx.nx_learn_dst_output):
        dd = {"t": "output"}
      else:
        import struct as _s
        h, ofs = _s.unpack("!LH", dst.data)
        dd = {"t": "match" if isinstance(dst, nx.nx_learn_dst_match) else "load", "field": R._nxm_name(h), "ofs": ofs}
      specs.append({"n_bits": s.n_bits, "src": sd, "dst": dd})
    out["spec"] = specs
    return out
  if kind == "nx_action_bundle":
    out = {n: getattr(obj, n) for n in ("subtype", "algorithm", "fields", "basis")}
    out["slave_type"] = _nxm_header_of_class(obj.slave_type)
    out["dst"] = 0 if obj.dst is None else _nxm_header_of_class(obj.dst)
    out["ofs_nbits"] = 0 if obj.dst is None else ((obj.offset << 6) | (obj.nbits - 1))
    out["slaves"] = [s if isinstance(s, int) else s.value for s in obj.slaves]
    return out
  raise ValueError("fields_of: unknown nicira kind %r" % (kind,))


# --------------------------------------------------------------------------- strategies

def uint(bits):
  """{0, 1, max, max-1, sign bit, powers of two +-1} united with uniform over the wire range."""
  mx = (1 << bits) - 1
  edge = sorted({0, 1, 2, mx, mx - 1, 1 << (bits - 1), (1 << (bits - 1)) - 1, (1 << (bits - 1)) + 1,
                 (1 << (bits // 2)) & mx, ((1 << (bits // 2)) - 1) & mx, ((1 << (bits // 2)) + 1) & mx})
  return st.one_of(st.sampled_from(edge), st.integers(0, mx))


def macs():
  return st.one_of(st.sampled_from([ZMAC, b"\xff" * 6, b"\x01\x80\xc2\x00\x00\x0e", b"\x00\x00\x00\x00\x00\x01",
                                    b"\x80\x00\x00\x00\x00\x00"]), st.binary(min_size=6, max_size=6))


def text(n):
  alpha = st.characters(min_codepoint=1, max_codepoint=255)
  return st.one_of(st.just(""), st.text(alpha, min_size=n, max_size=n), st.text(alpha, max_size=n),
                   st.text(st.sampled_from("abcXYZ-_. 09"), max_size=n))


def payload(max_size=1500):
  return st.one_of(st.just(b""), st.binary(max_size=64),
                   st.tuples(st.integers(0, max_size), st.integers(0, 255)).map(lambda t: {"$bytes": [t[0], t[1]]}))


def _subset(draw, names):
  return [n for n in names if draw(st.booleans())]


@st.composite
def match(draw, consistent=True):
  """Semantic ofp_match.  consistent=True: prerequisite-consistent by construction; False: arbitrary
  presence (may happen to be consistent; classify with R.match_consistent)."""
  m = {}
  for n in _subset(draw, ["in_port", "dl_src", "dl_dst", "dl_vlan", "dl_vlan_pcp"]):
    m[n] = draw(macs()) if n in ("dl_src", "dl_dst") else draw(uint(dict(R.MATCH_INT_FIELDS)[n]))
  addr = st.tuples(uint(32), st.one_of(st.sampled_from([1, 8, 24, 31, 32]), st.integers(1, 32))).map(list)
  if not consistent:
    for n in _subset(draw, ["dl_type", "nw_tos", "nw_proto", "tp_src", "tp_dst"]):
      if n == "dl_type":
        m[n] = draw(st.one_of(st.sampled_from([0x0800, 0x0806, 0x86dd, 0x8100, 0x05ff, 0]), uint(16)))
      elif n == "nw_proto":
        m[n] = draw(st.one_of(st.sampled_from([1, 6, 17, 47, 0, 255]), uint(8)))
      else:
        m[n] = draw(uint(dict(R.MATCH_INT_FIELDS)[n]))
    for n in _subset(draw, ["nw_src", "nw_dst"]):
      m[n] = draw(addr)
    return m
  if draw(st.integers(0, 3)) == 0:
    m["$form"] = draw(st.sampled_from(["cidr", "text-tuple", "raw"]))
  cat = draw(st.sampled_from(["none", "ip", "ip", "arp", "other"]))
  if cat == "none":
    return m
  if cat == "other":
    m["dl_type"] = draw(st.one_of(st.sampled_from([0x86dd, 0x8100, 0x05ff, 0x88cc, 0, 0xffff]),
                                  uint(16).filter(lambda v: v not in (0x0800, 0x0806))))
    return m
  m["dl_type"] = 0x0800 if cat == "ip" else 0x0806
  for n in _subset(draw, ["nw_src", "nw_dst"]):
    m[n] = draw(addr)
  if cat == "ip" and draw(st.booleans()):
    m["nw_tos"] = draw(uint(8))
  if draw(st.booleans()):
    if cat == "arp":
      m["nw_proto"] = draw(uint(8))
    else:
      m["nw_proto"] = draw(st.one_of(st.sampled_from([1, 6, 17]), st.sampled_from([1, 6, 17, 47, 0, 255]), uint(8)))
      if m["nw_proto"] in (1, 6, 17):
        for n in _subset(draw, ["tp_src", "tp_dst"]):
          m[n] = draw(uint(16))
  return m


def _opt(draw, f, name, strat, p_absent=0.15):
  """Leave a defaulted field out now and then so constructor defaults are exercised too."""
  if draw(st.integers(0, 99)) >= int(p_absent * 100):
    f[name] = draw(strat)


def _blob(aligned, base, max_units=4, max_len=40):
  """payload of a variable-length element: aligned=True keeps base+len a multiple of 8 (what the specification
  pads to), aligned=False draws every length 0..max_len, i.e. all residues of the alignment"""
  if aligned:
    return st.integers(0, max_units).flatmap(lambda n: st.binary(min_size=(-base) % 8 + 8 * n, max_size=(-base) % 8 + 8 * n))
  return st.one_of(st.integers(0, 15).flatmap(lambda n: st.binary(min_size=n, max_size=n)), st.binary(max_size=max_len))


@st.composite
def action(draw, nicira=False, kinds=None, aligned=True):
  kinds = list(kinds or OF10_ACTION_KINDS)
  kind = draw(st.sampled_from(kinds))
  f = {}
  if kind == "ofp_action_output":
    f["port"] = draw(st.one_of(st.sampled_from([OFPP_CONTROLLER, 0xfffb, 0xfff8, 0xfffe, 1]), uint(16)))
    _opt(draw, f, "max_len", uint(16))
  elif kind == "ofp_action_enqueue":
    f["port"] = draw(uint(16))
    _opt(draw, f, "queue_id", uint(32))
  elif kind == "ofp_action_vlan_vid":
    _opt(draw, f, "vlan_vid", uint(16))
  elif kind == "ofp_action_vlan_pcp":
    _opt(draw, f, "vlan_pcp", uint(8))
  elif kind == "ofp_action_dl_addr":
    f["type"] = draw(st.sampled_from([4, 5]))
    _opt(draw, f, "dl_addr", macs())
  elif kind == "ofp_action_nw_addr":
    f["type"] = draw(st.sampled_from([6, 7]))
    _opt(draw, f, "nw_addr", uint(32))
  elif kind == "ofp_action_nw_tos":
    _opt(draw, f, "nw_tos", uint(8))
  elif kind == "ofp_action_tp_port":
    f["type"] = draw(st.sampled_from([9, 10]))
    _opt(draw, f, "tp_port", uint(16))
  elif kind == "ofp_action_vendor_generic":
    _opt(draw, f, "vendor", uint(32).filter(lambda v: v != R.NX_VENDOR_ID))
    _opt(draw, f, "body", _blob(aligned, 8))
  elif kind == "ofp_action_generic":
    f["type"] = draw(st.one_of(st.sampled_from([12, 0xfffe, 0x8000]), st.integers(12, 0xfffe)))
    _opt(draw, f, "data", _blob(aligned, 4, 3))
  return {"k": kind, "f": f}


def actions(max_size=6, aligned=True):
  return st.lists(action(aligned=aligned), max_size=max_size)


@st.composite
def phy_port(draw):
  f = {}
  _opt(draw, f, "port_no", uint(16))
  _opt(draw, f, "hw_addr", macs())
  if "hw_addr" in f and draw(st.integers(0, 4)) == 0:
    f["$form"] = "raw"
  _opt(draw, f, "name", text(16))
  for n in ("config", "state", "curr", "advertised", "supported", "peer"):
    _opt(draw, f, n, uint(32), 0.3)
  return f


@st.composite
def queue_prop(draw, safe=True, kinds=None):
  kinds = kinds if kinds else ["ofp_queue_prop_min_rate"] if safe else ["ofp_queue_prop_min_rate"] * 3 + [
      "ofp_queue_prop_none"] * 2 + ["ofp_queue_prop_generic"] * 3
  kind = draw(st.sampled_from(kinds))
  f = {}
  if kind == "ofp_queue_prop_min_rate":
    _opt(draw, f, "rate", uint(16))
  else:
    if kind == "ofp_queue_prop_generic":
      f["property"] = draw(st.one_of(st.sampled_from([2, 0xffff]), st.integers(2, 0xffff)))
    _opt(draw, f, "data", _blob(safe, 4, 2))        # unsafe: every length 0..40, all residues mod 8
  return {"k": kind, "f": f}


@st.composite
def packet_queue(draw, safe=True):
  f = {}
  _opt(draw, f, "queue_id", uint(32))
  _opt(draw, f, "properties", st.lists(queue_prop(safe), max_size=4))
  return f


@st.composite
def stats_request_body(draw, safe=True, generic=False, kinds=None):
  kinds = kinds or [k for k in STATS_REQUEST_KINDS if not (safe and k == "ofp_vendor_stats_generic")
                    and (generic or k != "ofp_generic_stats_body")]
  kind = draw(st.sampled_from(kinds))
  f = {}
  if kind == "ofp_generic_stats_body":
    _opt(draw, f, "data", st.binary(max_size=40))
  if kind in ("ofp_flow_stats_request", "ofp_aggregate_stats_request"):
    _opt(draw, f, "match", match())
    _opt(draw, f, "table_id", uint(8))
    _opt(draw, f, "out_port", uint(16))
  elif kind == "ofp_port_stats_request":
    _opt(draw, f, "port_no", uint(16))
  elif kind == "ofp_queue_stats_request":
    _opt(draw, f, "port_no", uint(16))
    _opt(draw, f, "queue_id", uint(32))
  elif kind == "ofp_vendor_stats_generic":
    f["vendor"] = draw(uint(32))
    _opt(draw, f, "data", st.binary(max_size=40))
  return {"k": kind, "f": f}


@st.composite
def stats_reply_entry(draw, kind, aligned=True):
  f = {}
  if kind == "ofp_desc_stats":
    for n, w in (("mfr_desc", 256), ("hw_desc", 256), ("sw_desc", 256), ("serial_num", 32), ("dp_desc", 256)):
      _opt(draw, f, n, text(w), 0.3)
  elif kind == "ofp_flow_stats":
    _opt(draw, f, "table_id", uint(8))
    _opt(draw, f, "match", match())
    for n, b in (("duration_sec", 32), ("duration_nsec", 32), ("priority", 16), ("idle_timeout", 16),
                 ("hard_timeout", 16), ("cookie", 64), ("packet_count", 64), ("byte_count", 64)):
      _opt(draw, f, n, uint(b), 0.3)
    _opt(draw, f, "actions", actions(4, aligned=aligned))
  elif kind == "ofp_aggregate_stats":
    _opt(draw, f, "packet_count", uint(64))
    _opt(draw, f, "byte_count", uint(64))
    _opt(draw, f, "flow_count", uint(32))
  elif kind == "ofp_table_stats":
    _opt(draw, f, "table_id", uint(8))
    _opt(draw, f, "name", text(32))
    for n, b in (("wildcards", 32), ("max_entries", 32), ("active_count", 32), ("lookup_count", 64), ("matched_count", 64)):
      _opt(draw, f, n, uint(b), 0.3)
  elif kind == "ofp_port_stats":
    _opt(draw, f, "port_no", uint(16))
    for n in list(DEFAULTS["ofp_port_stats"])[1:]:
      _opt(draw, f, n, uint(64), 0.4)
  elif kind == "ofp_queue_stats":
    _opt(draw, f, "port_no", uint(16))
    _opt(draw, f, "queue_id", uint(32))
    for n in ("tx_bytes", "tx_packets", "tx_errors"):
      _opt(draw, f, n, uint(64))
  elif kind == "ofp_vendor_stats_generic":
    f["vendor"] = draw(uint(32))
    _opt(draw, f, "data", st.binary(max_size=40))
  return {"k": kind, "f": f}


@st.composite
def message(draw, direction="any", safe=True, kinds=None, max_list=6):
  """Strategy of message fragments (always with an explicit xid).  max_list bounds action / port / entry lists."""
  if kinds is None:
    kinds = {"to_switch": MESSAGE_KINDS_TO_SWITCH, "to_controller": MESSAGE_KINDS_TO_CONTROLLER,
             "any": OF10_MESSAGE_KINDS}[direction]
  kind = draw(st.sampled_from(kinds))
  f = {"xid": draw(uint(32))}
  if kind == "ofp_error":
    _opt(draw, f, "type", uint(16))
    _opt(draw, f, "code", uint(16))
    _opt(draw, f, "data", payload(200))
  elif kind in ("ofp_echo_request", "ofp_echo_reply"):
    _opt(draw, f, "body", payload())
  elif kind == "ofp_vendor_generic":
    _opt(draw, f, "vendor", uint(32).filter(lambda v: v != R.NX_VENDOR_ID))
    _opt(draw, f, "data", payload(200))
  elif kind == "ofp_features_reply":
    _opt(draw, f, "datapath_id", uint(64))
    _opt(draw, f, "n_buffers", uint(32))
    _opt(draw, f, "n_tables", uint(8))
    _opt(draw, f, "capabilities", uint(32))
    _opt(draw, f, "actions", uint(32))
    _opt(draw, f, "ports", st.lists(phy_port(), max_size=max(4, max_list)))
  elif kind in ("ofp_get_config_reply", "ofp_set_config"):
    _opt(draw, f, "flags", uint(16))
    _opt(draw, f, "miss_send_len", uint(16))
  elif kind == "ofp_packet_in":
    data = draw(payload())
    n = len(R.expand_bytes(data))
    _opt(draw, f, "data", st.just(data))
    if "data" not in f:
      n = 0
    _opt(draw, f, "buffer_id", uint(32))
    _opt(draw, f, "in_port", uint(16))
    _opt(draw, f, "reason", uint(8))
    if draw(st.booleans()):
      f["total_len"] = draw(st.one_of(st.just(n), st.just(0xffff), st.integers(n, 0xffff)))
  elif kind == "ofp_flow_removed":
    _opt(draw, f, "match", match())
    for n, b in (("cookie", 64), ("priority", 16), ("reason", 8), ("duration_sec", 32), ("duration_nsec", 32),
                 ("idle_timeout", 16), ("packet_count", 64), ("byte_count", 64)):
      _opt(draw, f, n, uint(b), 0.3)
  elif kind == "ofp_port_status":
    _opt(draw, f, "reason", uint(8))
    _opt(draw, f, "desc", phy_port())
  elif kind == "ofp_packet_out":
    _opt(draw, f, "in_port", uint(16))
    _opt(draw, f, "actions", actions(max_list, aligned=safe))
    if draw(st.booleans()):
      _opt(draw, f, "data", payload())          # unbuffered: carries the frame
      if draw(st.booleans()):
        f["buffer_id"] = NO_BUFFER
    else:
      f["buffer_id"] = draw(uint(32))           # buffered: no data allowed by the constructor contract
  elif kind == "ofp_flow_mod":
    _opt(draw, f, "match", match())
    for n, b in (("cookie", 64), ("command", 16), ("idle_timeout", 16), ("hard_timeout", 16), ("priority", 16),
                 ("buffer_id", 32), ("out_port", 16), ("flags", 16)):
      _opt(draw, f, n, uint(b), 0.3)
    _opt(draw, f, "actions", actions(max_list, aligned=safe))
  elif kind == "ofp_port_mod":
    _opt(draw, f, "port_no", uint(16))
    _opt(draw, f, "hw_addr", macs())
    if "hw_addr" in f and draw(st.integers(0, 4)) == 0:
      f["$form"] = "raw"
    for n in ("config", "mask", "advertise"):
      _opt(draw, f, n, uint(32))
  elif kind == "ofp_queue_get_config_request":
    _opt(draw, f, "port", uint(16))
  elif kind == "ofp_queue_get_config_reply":
    _opt(draw, f, "port", uint(16))
    _opt(draw, f, "queues", st.lists(packet_queue(safe), max_size=3))
  elif kind == "ofp_stats_request":
    _opt(draw, f, "flags", uint(16))
    shape = draw(st.sampled_from(["body", "body", "body+type", "raw-known-empty"] + ([] if safe else ["raw-unknown"])))
    if shape in ("body", "body+type"):
      f["body"] = draw(stats_request_body(safe))
      if shape == "body+type":
        f["type"] = R.stats_type_of(f["body"]["k"], False)
    elif shape == "raw-known-empty":
      f["type"] = draw(st.sampled_from([0, 3]))       # DESC / TABLE: empty request body, default body b''
    else:
      f["type"] = draw(st.integers(6, 0xfffe))
      f["body"] = draw(st.binary(max_size=24))
      if draw(st.booleans()):
        f["body"] = {"k": "ofp_generic_stats_body", "f": {"data": f["body"]}}
  elif kind == "ofp_stats_reply":
    _opt(draw, f, "flags", uint(16))
    rk = [k for k in STATS_REPLY_KINDS if not (safe and k in ("ofp_table_stats", "ofp_vendor_stats_generic"))]
    shape = draw(st.sampled_from(["typed", "typed", "typed", "raw-unknown"]))
    if shape == "raw-unknown":
      f["type"] = draw(st.integers(6, 0xfffe))
      f["body"] = draw(st.binary(max_size=24))
    else:
      bk = draw(st.sampled_from(rk))
      t = R.stats_type_of(bk, True)
      if R.stats_reply_is_array(t):
        f["body"] = draw(st.lists(stats_reply_entry(bk, aligned=safe), max_size=max(4, max_list // 2)))
        if not f["body"] or draw(st.booleans()):
          f["type"] = t
      else:
        f["body"] = draw(stats_reply_entry(bk, aligned=safe))
        if draw(st.booleans()):
          f["type"] = t
  return {"k": kind, "f": f}


# ---- Nicira strategies

@st.composite
def nxm_entry(draw, names=None, masked=None):
  name = draw(st.sampled_from(names or sorted(R.NXM_FIELDS)))
  vendor, field, n, maskable = R.NXM_FIELDS[name]
  value = draw(st.one_of(st.sampled_from([b"\0" * n, b"\xff" * n, b"\x80" + b"\0" * (n - 1)]),
                         st.binary(min_size=n, max_size=n)))
  use_mask = maskable and (draw(st.booleans()) if masked is None else masked)
  mask = None
  if use_mask:
    mask = draw(st.one_of(st.sampled_from([b"\xff" * n, b"\0" * n, b"\xff" + b"\0" * (n - 1), b"\x80" + b"\0" * (n - 1)]),
                          st.binary(min_size=n, max_size=n)))
    if name == "NXM_NX_TCP_FLAGS":
      mask = bytes([mask[0] & 0x0f, mask[1]])       # constructor contract: top four bits must be zero
    value = bytes(v & m for v, m in zip(value, mask))   # constructor contract: no value bits outside the mask
  return {"field": name, "value": value, "mask": mask}


@st.composite
def nx_match_entries(draw, max_size=5):
  names = draw(st.lists(st.sampled_from(sorted(R.NXM_FIELDS)), max_size=max_size, unique=True))
  return [draw(nxm_entry([n])) for n in names]


_NXM_WRITABLE = sorted(R.NXM_FIELDS)


def _nxm_hdr():
  return st.sampled_from(_NXM_WRITABLE).map(lambda n: R.nxm_header(n))


@st.composite
def _ofs_nbits(draw):
  nbits = draw(st.one_of(st.sampled_from([1, 64, 32, 16]), st.integers(1, 64)))
  ofs = draw(st.one_of(st.sampled_from([0, 1023, 512]), st.integers(0, 1023)))
  return (ofs << 6) | (nbits - 1)


@st.composite
def learn_spec(draw):
  n_bits = draw(st.one_of(st.sampled_from([1, 16, 17, 32, 48, 1023]), st.integers(1, 1023)))
  if draw(st.booleans()):
    src = {"t": "field", "field": draw(st.sampled_from(_NXM_WRITABLE)), "ofs": draw(uint(16))}
  else:
    n = (n_bits + 15) // 16 * 2
    src = {"t": "immediate", "data": draw(st.binary(min_size=n, max_size=n))}
  t = draw(st.sampled_from(["match", "load", "output"]))
  if t == "output":
    dst = {"t": "output"}
  else:
    dst = {"t": t, "field": draw(st.sampled_from(_NXM_WRITABLE)), "ofs": draw(uint(16))}
  return {"n_bits": n_bits, "src": src, "dst": dst}


@st.composite
def nx_action(draw, kinds=None):
  kind = draw(st.sampled_from(kinds or NX_ACTION_KINDS))
  f = {}
  if kind == "nx_action_resubmit":
    f["subtype"] = draw(st.sampled_from([1, 14]))
    f["in_port"] = draw(uint(16))
    f["table"] = draw(uint(8))
  elif kind == "nx_action_set_tunnel":
    f["tun_id"] = draw(uint(32))
  elif kind == "nx_action_set_tunnel64":
    f["tun_id"] = draw(uint(64))
  elif kind == "nx_reg_move":
    f.update(nbits=draw(uint(16)), src=draw(_nxm_hdr()), dst=draw(_nxm_hdr()))
    _opt(draw, f, "src_ofs", uint(16))
    _opt(draw, f, "dst_ofs", uint(16))
  elif kind == "nx_reg_load":
    f.update(ofs_nbits=draw(_ofs_nbits()), dst=draw(_nxm_hdr()), value=draw(uint(64)))
  elif kind == "nx_output_reg":
    f.update(ofs_nbits=draw(_ofs_nbits()), reg=draw(_nxm_hdr()))
    _opt(draw, f, "max_len", uint(16))
  elif kind == "nx_action_fin_timeout":
    _opt(draw, f, "fin_idle_timeout", uint(16))
    _opt(draw, f, "fin_hard_timeout", uint(16))
  elif kind == "nx_action_controller":
    _opt(draw, f, "max_len", uint(16))
    _opt(draw, f, "controller_id", uint(16))
    _opt(draw, f, "reason", uint(8))
  elif kind == "nx_action_push_mpls":
    _opt(draw, f, "ethertype", uint(16))
  elif kind == "nx_action_pop_mpls":
    f["ethertype"] = draw(uint(16))
  elif kind == "nx_action_mpls_label":
    f["label"] = draw(uint(32))
  elif kind == "nx_action_mpls_tc":
    f["tc"] = draw(uint(8))
  elif kind == "nx_action_learn":
    for n, b in (("idle_timeout", 16), ("hard_timeout", 16), ("priority", 16), ("cookie", 64), ("flags", 16),
                 ("table_id", 8), ("fin_idle_timeout", 16), ("fin_hard_timeout", 16)):
      _opt(draw, f, n, uint(b), 0.3)
    _opt(draw, f, "spec", st.lists(learn_spec(), max_size=4))
  elif kind == "nx_action_bundle":
    f["subtype"] = draw(st.sampled_from([12, 13]))
    for n in ("algorithm", "fields", "basis"):
      _opt(draw, f, n, uint(16))
    _opt(draw, f, "slaves", st.lists(uint(16), max_size=5))
    if f["subtype"] == 13:
      f["dst"] = draw(_nxm_hdr())
      f["ofs_nbits"] = draw(_ofs_nbits())
  return {"k": kind, "f": f}


@st.composite
def nx_message(draw, kinds=None):
  kind = draw(st.sampled_from(kinds or NX_MESSAGE_KINDS))
  f = {"xid": draw(uint(32))}
  if kind in ("nx_role_request", "nx_role_reply"):
    _opt(draw, f, "role", uint(32))
  elif kind == "nx_flow_mod_table_id":
    _opt(draw, f, "set", st.sampled_from([0, 1]))
  elif kind == "nx_packet_in_format":
    _opt(draw, f, "format", uint(32))
  elif kind == "nx_async_config":
    for n in list(DEFAULTS[kind]):
      _opt(draw, f, n, uint(32), 0.3)
  elif kind == "ofp_flow_mod_table_id":
    _opt(draw, f, "match", match())
    for n, b in (("cookie", 64), ("command", 8), ("idle_timeout", 16), ("hard_timeout", 16), ("priority", 16),
                 ("buffer_id", 32), ("out_port", 16), ("flags", 16), ("table_id", 8)):
      _opt(draw, f, n, uint(b), 0.3)
    _opt(draw, f, "actions", actions(3, aligned=False))
  elif kind == "nx_flow_mod":
    for n, b in (("cookie", 64), ("command", 8), ("table_id", 8), ("idle_timeout", 16), ("hard_timeout", 16),
                 ("priority", 16), ("buffer_id", 32), ("out_port", 16), ("flags", 16)):
      _opt(draw, f, n, uint(b), 0.3)
    _opt(draw, f, "match", nx_match_entries())
    _opt(draw, f, "actions", st.lists(st.one_of(action(aligned=False), nx_action()), max_size=3))
  elif kind == "nxt_packet_in":
    data = draw(payload())
    n = len(R.expand_bytes(data))
    f["data"] = data
    for nm, b in (("buffer_id", 32), ("reason", 8), ("table_id", 8), ("cookie", 64)):
      _opt(draw, f, nm, uint(b), 0.3)
    if draw(st.booleans()):
      f["total_len"] = draw(st.integers(n, 0xffff))
    _opt(draw, f, "match", nx_match_entries())
  return {"k": kind, "f": f}
