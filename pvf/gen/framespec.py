"""Frames described by small JSON-able dicts ("frame specs"), built with ref/frames.

  mkframe(spec) -> bytes
  perturb(spec, in_port, what) -> (spec', in_port') | None
      a frame that differs from `spec` in (ideally) exactly one OpenFlow match field
  CATALOG: named base specs covering the frame kinds of C03

spec keys (all optional):
  l2    "eth" (default) | "llc" | "snap"
  dst, src   48-bit ints
  vlan  None | [pcp, vid]          (outer tag, CFI 0)
  vlan2 None | [pcp, vid]          (second tag: QinQ)
  etype EtherType for l3 == "raw" (and for snap)
  oui   24-bit int SNAP OUI (default 0)
  l3    "ip" | "arp" | "raw"
  ip_src, ip_dst (ints), tos, ttl, mf (bool), df (bool), frag (units of 8 bytes), nopts (4-byte option words), proto
  l4    "tcp" | "udp" | "icmp" | "raw"
  sport, dport   ports; for icmp: type, code
  op, spa, tpa   ARP opcode and protocol addresses (sha = src, tha = 0)
  pay   payload length in bytes
"""
from ..ref import frames as F

_PROTO = {"tcp": 6, "udp": 17, "icmp": 1}


def _payload(n, salt=0):
  return bytes(((i * 7 + salt) & 0xff) for i in range(n))


def mkframe(s):
  l3 = s.get("l3", "raw")
  # even payload lengths only: POX's checksum() cannot handle odd lengths at this commit (a C14 matter)
  pay = _payload(s.get("pay", 6) & ~1, s.get("salt", 0))
  if l3 == "ip":
    l4 = s.get("l4", "raw")
    proto = s.get("proto", _PROTO.get(l4, 253))
    src, dst = s.get("ip_src", 0x0a000001), s.get("ip_dst", 0x0a000002)
    sport, dport = s.get("sport", 1000), s.get("dport", 2000)
    if l4 == "tcp":
      seg = F.build_tcp(src, dst, sport, dport, pay)
    elif l4 == "udp":
      seg = F.build_udp(src, dst, sport, dport, pay)
    elif l4 == "icmp":
      # short ICMP bodies: POX's unreach/time-exceeded parsers fail on >= 28 bytes (a C15 matter)
      seg = F.build_icmp(sport & 0xff, dport & 0xff, pay[:16])
    else:
      seg = pay
    nopts = s.get("nopts", 0)
    opts = (b"\x01" * (4 * nopts - 1) + b"\x00") if nopts else b""
    body = F.build_ipv4(src, dst, proto, seg, tos=s.get("tos", 0), ident=s.get("ident", 1), df=s.get("df", False),
                        mf=s.get("mf", False), frag=s.get("frag", 0), ttl=s.get("ttl", 64), options=opts)
    etype = F.ETH_IP
  elif l3 == "arp":
    body = F.build_arp(s.get("op", 1), s.get("src", 0x020000000001), s.get("spa", 0x0a000001), 0, s.get("tpa", 0x0a000002))
    etype = F.ETH_ARP
  else:
    body = pay
    etype = s.get("etype", 0x88b5)
    if etype == 0x86dd:
      # a minimal well-formed IPv6 header (no next header) so that the frame is not malformed
      body = (b"\x60\x00\x00\x00" + len(pay).to_bytes(2, "big") + bytes([59, 64])
              + bytes(15) + b"\x01" + bytes(15) + b"\x02" + pay)
  if "etype" in s and l3 != "raw":
    etype = s["etype"]
  tags = []
  if s.get("vlan") is not None:
    tags.append((s["vlan"][0], 0, s["vlan"][1]))
    if s.get("vlan2") is not None:
      tags.append((s["vlan2"][0], 0, s["vlan2"][1]))
  dst, src = s.get("dst", 0x020000000002), s.get("src", 0x020000000001)
  l2 = s.get("l2", "eth")
  if l2 == "eth":
    return F.build_eth(dst, src, etype, body, vlan=tags or None)
  if l2 == "snap":
    return F.build_8023(dst, src, body, snap=(s.get("oui", 0).to_bytes(3, "big"), etype), vlan=tags or None)
  return F.build_8023(dst, src, body, dsap=s.get("dsap", 0x42), ssap=s.get("ssap", 0x42), ctrl=3, vlan=tags or None)


PERTURBATIONS = ["in_port", "dl_src", "dl_dst", "dl_vlan", "dl_vlan_untag", "dl_vlan_pcp", "dl_type", "nw_tos",
                 "nw_proto", "nw_src_in", "nw_src_out", "nw_dst_in", "nw_dst_out", "nw_src_hi", "nw_dst_hi",
                 "tp_src", "tp_dst", "frag_mf", "frag_off", "ecn", "snap_oui", "arp_op_hi"]


def perturb(spec, in_port, what, ps=32, pd=32):
  """ps/pd: prefix lengths the match uses for nw_src/nw_dst; "*_in" flips the lowest bit inside the
  prefix (the frame must stop matching), "*_out" the highest bit outside it (must still match),
  "*_hi" the top bit."""
  s = dict(spec)
  l3 = s.get("l3", "raw")
  if what == "in_port":
    return s, in_port % 3 + 1
  if what == "dl_src":
    s["src"] = s.get("src", 0x020000000001) ^ 0x000000010000
  elif what == "dl_dst":
    s["dst"] = s.get("dst", 0x020000000002) ^ 0x000000000100
  elif what == "dl_vlan":
    v = s.get("vlan")
    s["vlan"] = [0, 7] if v is None else [v[0], v[1] ^ 0x010]
  elif what == "dl_vlan_untag":
    if s.get("vlan") is None:
      return None
    s["vlan"] = None
    s.pop("vlan2", None)
  elif what == "dl_vlan_pcp":
    v = s.get("vlan")
    if v is None:
      return None
    s["vlan"] = [v[0] ^ 1, v[1]]
  elif what == "dl_type":
    if l3 == "raw":
      s["etype"] = s.get("etype", 0x88b5) ^ 0x0100
    else:
      s["l3"] = "raw"
      s["etype"] = 0x88b6
  elif what == "nw_tos":
    if l3 != "ip":
      return None
    s["tos"] = s.get("tos", 0) ^ 0x20
  elif what == "ecn":
    if l3 != "ip":
      return None
    s["tos"] = s.get("tos", 0) ^ 0x01
  elif what == "nw_proto":
    if l3 == "arp":
      s["op"] = 3 - s.get("op", 1) if s.get("op", 1) in (1, 2) else 1
    elif l3 == "ip":
      l4 = s.get("l4", "raw")
      if l4 == "tcp":
        s["l4"] = "udp"
      elif l4 == "udp":
        s["l4"] = "tcp"
      elif l4 == "icmp":
        return None
      else:
        s["proto"] = s.get("proto", 253) ^ 0x08
    else:
      return None
  elif what in ("nw_src_in", "nw_src_out", "nw_dst_in", "nw_dst_out", "nw_src_hi", "nw_dst_hi"):
    if l3 not in ("ip", "arp"):
      return None
    side, where = what[3:6], what[7:]
    pl = ps if side == "src" else pd
    if where == "in":
      if pl == 0:
        return None
      bit = 32 - pl
    elif where == "out":
      if pl >= 32:
        return None
      bit = 31 - pl
    else:
      bit = 31
    key = {("ip", "src"): "ip_src", ("ip", "dst"): "ip_dst", ("arp", "src"): "spa", ("arp", "dst"): "tpa"}[(l3, side)]
    dflt = 0x0a000001 if side == "src" else 0x0a000002
    s[key] = s.get(key, dflt) ^ (1 << bit)
  elif what in ("tp_src", "tp_dst"):
    if l3 != "ip" or s.get("l4", "raw") not in ("tcp", "udp", "icmp"):
      return None
    k = "sport" if what == "tp_src" else "dport"
    s[k] = s.get(k, 1000 if k == "sport" else 2000) ^ 1
  elif what == "arp_op_hi":
    if l3 != "arp":
      return None
    s["op"] = s.get("op", 1) ^ 0x0100          # opcode above 255 with the same low byte
  elif what == "snap_oui":
    if s.get("l2") != "snap":
      return None
    s["oui"] = s.get("oui", 0) ^ 0x00000c
  elif what == "frag_mf":
    if l3 != "ip":
      return None
    s["mf"] = not s.get("mf", False)
  elif what == "frag_off":
    if l3 != "ip":
      return None
    s["frag"] = 0 if s.get("frag", 0) else 3
  else:
    raise KeyError(what)
  return s, in_port


CATALOG = [
  ("tcp", {"l3": "ip", "l4": "tcp", "ip_src": 0x0a010203, "ip_dst": 0xc0a80a0b, "sport": 1234, "dport": 80, "tos": 0x28}),
  ("udp-vlan", {"l3": "ip", "l4": "udp", "vlan": [5, 100], "ip_src": 0xac100101, "ip_dst": 0x0a0000fe, "sport": 53, "dport": 5353}),
  ("icmp", {"l3": "ip", "l4": "icmp", "ip_src": 0x0a000001, "ip_dst": 0x0a000002, "sport": 8, "dport": 0}),
  ("tcp-opts", {"l3": "ip", "l4": "tcp", "nopts": 2, "ip_src": 0x0b000001, "ip_dst": 0x0b000002, "sport": 40000, "dport": 443, "tos": 0xb8}),
  ("arp-req", {"l3": "arp", "op": 1, "spa": 0x0a000001, "tpa": 0x0a000063, "dst": 0xffffffffffff}),
  ("arp-reply-vlan", {"l3": "arp", "op": 2, "spa": 0xc0a80001, "tpa": 0xc0a80002, "vlan": [0, 4095]}),
  ("frag-first-udp", {"l3": "ip", "l4": "udp", "mf": True, "ip_src": 0x0a000005, "ip_dst": 0x0a000006, "sport": 7, "dport": 9, "pay": 16}),
  ("frag-later-tcp", {"l3": "ip", "l4": "tcp", "frag": 4, "ip_src": 0x0a000007, "ip_dst": 0x0a000008, "sport": 22, "dport": 1022, "vlan": [1, 1]}),
  ("ip-other", {"l3": "ip", "l4": "raw", "proto": 89, "ip_src": 0xe0000005, "ip_dst": 0x0a000009, "pay": 24}),
  ("ethertype-other", {"l3": "raw", "etype": 0x88b5, "pay": 30}),
  ("ipv6-type", {"l3": "raw", "etype": 0x86dd, "pay": 40, "vlan": [7, 0]}),
  ("llc", {"l2": "llc", "l3": "raw", "pay": 20}),
  ("snap-ip", {"l2": "snap", "l3": "ip", "l4": "udp", "ip_src": 0x0a00000a, "ip_dst": 0x0a00000b, "sport": 67, "dport": 68}),
  ("snap-other", {"l2": "snap", "l3": "raw", "etype": 0x809b, "pay": 12}),
  ("icmp-vlan-opts", {"l3": "ip", "l4": "icmp", "vlan": [6, 2000], "nopts": 1, "ip_src": 0xc6336401, "ip_dst": 0xcb007101,
                      "sport": 3, "dport": 1, "pay": 8, "tos": 0xe0}),
  ("snap-oui-cdp", {"l2": "snap", "l3": "raw", "etype": 0x2000, "oui": 0x00000c, "pay": 12, "dst": 0x01000ccccccc}),
  ("snap-oui-ip", {"l2": "snap", "l3": "ip", "l4": "udp", "oui": 0x080007, "ip_src": 0x0a00000c, "ip_dst": 0x0a00000d,
                   "sport": 68, "dport": 67}),
  ("qinq", {"l3": "ip", "l4": "udp", "vlan": [2, 10], "vlan2": [3, 20]}),
  # 802.3 inside an 802.1Q tag: tag, length field, then LLC / LLC+SNAP
  ("llc-vlan", {"l2": "llc", "l3": "raw", "pay": 22, "vlan": [4, 300]}),
  ("snap-ip-vlan", {"l2": "snap", "l3": "ip", "l4": "tcp", "vlan": [1, 5], "ip_src": 0x0a00000e, "ip_dst": 0x0a00000f,
                    "sport": 179, "dport": 50000, "tos": 0xc0}),
]
CATALOG_BY_NAME = dict(CATALOG)
