#!/venv/bin/python
"""keep.py <out/replay/file.json> <slug>  -- commit a shrunk failure as a plain regression case"""
import json, os, sys
src, slug = sys.argv[1], sys.argv[2]
j = json.load(open(src))
d = os.path.join(os.path.dirname(os.path.dirname(os.path.abspath(__file__))), "replays", j["property"])
os.makedirs(d, exist_ok=True)
dst = os.path.join(d, slug + ".json")
json.dump({"property": j["property"], "case": j["case"], "key": j["key"], "msg": j["msg"][:600]}, open(dst, "w"), indent=1, sort_keys=True)
print(dst)
