#!/bin/sh
# run_seeds.sh <tier> <seed>...   -- every check at each seed; prints one line per run, non-zero exits are shouted
tier="$1"; shift
cd "$(dirname "$0")/.." || exit 2
sh setup.sh >/dev/null 2>&1
for seed in "$@"; do
  for id in C01 C02 C03 C04 C05 C06 C07 C08 C09 C10 C11 C12 C13 C14 C15 C16 C17 C18 C19 C20; do
    t0=$(date +%s)
    VERIF_SEED=$seed ./check "$id" "$tier" > "out/seed_${seed}_$id.log" 2>&1
    rc=$?
    t1=$(date +%s)
    echo "== seed=$seed $id rc=$rc wall=$((t1-t0))s"
    if [ $rc -ne 0 ]; then grep -E "^VIOLATION|^HARNESS-ERROR|key=" "out/seed_${seed}_$id.log" | head -6; cp out/replay/${id}-*.json /tmp/ 2>/dev/null; fi
  done
done
