#!/venv/bin/python
"""Mark known findings fixed when a /repo commit carries the first line of proposed_fixes/<finding id>.msg."""
import glob, json, os, subprocess
ROOT = os.path.dirname(os.path.dirname(os.path.abspath(__file__)))
p = os.path.join(ROOT, "known_findings.json")
d = json.load(open(p))
log = {}
for l in subprocess.check_output(["git", "-C", "/repo", "log", "--format=%h\t%s"]).decode().splitlines():
  h, s = l.split("\t", 1)
  log[s.strip()] = h
n = 0
for e in d["findings"]:
  if e["status"] != "open":
    continue
  cands = [e["id"]] + ([e["fix"]] if e.get("fix") else [])
  for c in cands:
    m = os.path.join(ROOT, "proposed_fixes", c + ".msg")
    if os.path.exists(m):
      first = open(m).readline().strip()
      if first in log:
        e["status"] = "fixed"; e["commit"] = log[first]
        e["line"] = "fixed: property=%s %s %s" % (e["property"], log[first], e["what"][:200])
        n += 1
        print("fixed", e["id"], log[first])
        break
tmp = p + ".tmp"
json.dump(d, open(tmp, "w"), indent=1)
os.replace(tmp, p)
print(n, "entries flipped; still open:", [e["id"] for e in d["findings"] if e["status"] == "open"])
