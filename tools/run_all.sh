#!/bin/sh
# run_all.sh <quick|thorough> [IDs...]   -- runs the checks one after another, prints one summary line each
tier="$1"; shift
ids="$*"
[ -z "$ids" ] && ids="C01 C02 C03 C04 C05 C06 C07 C08 C09 C10 C11 C12 C13 C14 C15 C16 C17 C18 C19 C20"
cd "$(dirname "$0")/.." || exit 2
sh setup.sh >/dev/null 2>&1
for id in $ids; do
  t0=$(date +%s)
  ./check "$id" "$tier" > "out/run_all_$id.log" 2>&1
  rc=$?
  t1=$(date +%s)
  echo "== $id rc=$rc wall=$((t1-t0))s :: $(grep "tier=$tier" "out/run_all_$id.log" | tail -1)"
  grep -E "^VIOLATION|^HARNESS-ERROR|^NOTE budget" "out/run_all_$id.log" | head -5
done
