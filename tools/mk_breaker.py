#!/venv/bin/python
"""mk_breaker.py <ID> [suffix] [focus text]  -- creates /tmp/brk-<id><suffix> worktree with TASK.md for an independent 'breaker' agent.
The task text contains only the property (statement, quantifier, anchored files); nothing from /verif."""
import json, os, subprocess, sys
pid = sys.argv[1]; suffix = sys.argv[2] if len(sys.argv) > 2 else ""; focus = sys.argv[3] if len(sys.argv) > 3 else ""
import glob
prior = []
for m in sorted(glob.glob("/verif/seeded/%s/*/meta.json" % pid)):
  try:
    prior.append("- " + json.load(open(m)).get("breaks", "")[:300])
  except Exception:
    pass
PRIOR = ("\n## Already tried in an earlier round (do NOT repeat these or close variants of them)\n\n" + "\n".join(prior) + "\n\nThis round, prefer changes that are harder to notice: two cooperating sites that each look fine alone; behaviour that depends on\naccumulated state or on the order of earlier operations; rarely used API variants, flags or code paths; boundary values of sizes,\ncounts and identifiers; error/exception paths; interactions between two features.\n") if prior and suffix else ""
p = [json.loads(l) for l in open("/verif/properties.jsonl") if l.strip()]
p = [x for x in p if x["id"] == pid][0]
wt = "/tmp/brk-%s%s" % (pid.lower(), suffix)
subprocess.check_call(["git", "-C", "/repo", "worktree", "add", "--detach", "-q", wt, "HEAD"])
mech = "\n".join("  - %s (%s)" % (m.get("name"), m.get("where", "")) for m in p["anchors"]["mechanism"])
open(os.path.join(wt, "TASK.md"), "w").write("""# Task: write realistic, subtle regressions that break one stated property

You are helping test a verification effort. Work ONLY inside this git worktree: %(wt)s (a checkout of noxrepo/pox,
a pure-Python OpenFlow 1.0 controller and software switch; Python is /venv/bin/python; no network).
Do not read or touch /verif or /repo or any other /tmp/brk-* directory. NEVER use `git stash` (the stash is shared by all
worktrees of the repository and other agents work in sibling worktrees): use `git diff > file`, `git apply`, `git apply -R`, `git checkout -- .`.

Run the existing unit tests with:  cd %(wt)s && /venv/bin/python -m pytest -q -p no:cacheprovider --continue-on-collection-errors -rA tests/unit
(Some tests fail on the clean tree already; what matters is that exactly the same tests pass before and after your change.
Record the clean-tree result first.)

## The property (it should hold for this codebase)

**%(title)s**

%(statement)s

Quantified over: %(qtext)s

Code it is anchored in: %(files)s
Mechanisms meant to make it hold:
%(mech)s

## What to produce

THREE different, independent changes to the source (each a separate patch against the clean tree) that break this property
while the code still imports and the existing unit tests give the same results as on the clean tree. Each change must look like a
plausible maintenance edit (refactor, "optimisation", off-by-one, wrong operator/mask/default, reordered statements, dropped
bookkeeping, a guard moved) and must need something SPECIFIC to manifest — a particular interleaving or ordering, a fault at a
particular point, a multi-step sequence of operations, an unusual input or boundary value, or two cooperating sites that each look
fine alone — not something that any ordinary use would expose at once. Spread the three over different mechanisms/files listed above.
%(focus)s%(prior)s
For each change n = 1, 2, 3 deliver in %(wt)s/out/<n>/ :
* `patch.diff` — output of `git diff` against the clean tree (source files only);
* `demo.py` — a small standalone program, run as `cd <tree> && /venv/bin/python out/<n>/demo.py`, that exits 0 on the clean tree and
  exits 1 (printing what went wrong) with the change applied; it should drive the real code the way a user of the library would
  (public API / messages / bytes), and judge the observable behaviour named in the property. Note `pox.core.core` is None unless you
  call `pox.core.initialize(threaded_selecthub=False, handle_signals=False)` (or import unittest first); prefer driving classes directly.
  It must terminate within a minute and leave no threads running;
* `meta.json` — {"breaks": "one sentence", "needs": "what specific input / sequence / interleaving / fault is needed to see it", "files": [...]}.

Verify both directions yourself for each change (clean tree: demo exits 0, tests as baseline; patched tree: demo exits 1, tests
unchanged from baseline), then leave the worktree clean (`git checkout -- .`; out/ and TASK.md are untracked and stay).
Reply with a short summary of the three changes. If the clean tree already violates the property in the area you looked at, mention it
briefly but do not build a change on top of an existing defect.
""" % dict(wt=wt, title=p["title"], statement=p["statement"], qtext=p["quantifier"]["text"], files=", ".join(p["anchors"]["files"]), mech=mech,
           focus=("\nFocus: " + focus + "\n") if focus else "", prior=PRIOR))
print(wt)
