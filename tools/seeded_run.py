#!/venv/bin/python
"""Run checks against seeded changes (development tool, not a registered check).

  tools/seeded_run.py [--tier quick] [--only C16] [--mutants] [--jobs N]

For every /verif/seeded/<ID>/<name>/patch.diff (and with --mutants every /verif/mutants/<ID>-*.patch):
a scratch worktree of /repo HEAD is created under a mktemp dir outside /repo and /verif, the patch
is applied there, the pinned test-suite is run (the change must still pass the 46 stable tests), the
demonstration (demo.py, if any) is run on the clean and on the patched tree, and the property's check is
run with VERIF_REPO_ROOT pointing at the patched tree.  Expected: exit 1 with a VIOLATION line.
The worktree is removed afterwards.  Results go to /verif/seeded/RESULTS.json (or mutants/RESULTS.json).
"""
import argparse, glob, json, os, re, shutil, subprocess, sys, tempfile, time

ROOT = os.path.dirname(os.path.dirname(os.path.abspath(__file__)))
STABLE = json.load(open("/root/.vp/BASELINE.json"))["stable_pass"]


def sh(cmd, cwd=None, env=None, timeout=3600):
  p = subprocess.run(cmd, shell=True, cwd=cwd, env=env, stdout=subprocess.PIPE, stderr=subprocess.STDOUT, timeout=timeout)
  return p.returncode, p.stdout.decode(errors="replace")


def stable_pass(tree):
  xml = os.path.join(tree, ".junit.xml")
  sh("/venv/bin/python -m pytest -q -p no:cacheprovider --timeout=900 --continue-on-collection-errors --junitxml=%s" % xml, cwd=tree)
  import xml.etree.ElementTree as ET
  ok = set()
  try:
    for tc in ET.parse(xml).getroot().iter("testcase"):
      if not any(c.tag in ("failure", "error", "skipped") for c in tc):
        ok.add("%s::%s" % (tc.get("classname"), tc.get("name")))
  finally:
    if os.path.exists(xml):
      os.unlink(xml)
  return [t for t in STABLE if t not in ok]


class _Skip(Exception):
  pass


def main():
  ap = argparse.ArgumentParser()
  ap.add_argument("--tier", default="quick")
  ap.add_argument("--only", default=None)
  ap.add_argument("--mutants", action="store_true")
  ap.add_argument("--jobs", default="16")
  ap.add_argument("--skip-tests", action="store_true")
  ap.add_argument("--with-check", default=None, help="run this other property's check against the change instead of its own (recorded under other_checks)")
  a = ap.parse_args()
  items = []
  if a.mutants:
    for p in sorted(glob.glob(os.path.join(ROOT, "mutants", "C*-*.patch"))):
      pid = os.path.basename(p).split("-")[0]
      items.append((pid, os.path.basename(p)[:-6], p, None))
    resfile = os.path.join(ROOT, "mutants", "RESULTS.json")
  else:
    for p in sorted(glob.glob(os.path.join(ROOT, "seeded", "C*", "*", "patch.diff"))):
      d = os.path.dirname(p)
      pid = os.path.basename(os.path.dirname(d))
      demo = os.path.join(d, "demo.py")
      items.append((pid, os.path.basename(d), p, demo if os.path.exists(demo) else None))
    resfile = os.path.join(ROOT, "seeded", "RESULTS.json")
  if a.only:
    items = [i for i in items if i[0] == a.only or a.only in i[1] or a.only in "%s/%s" % (i[0], i[1])]
  try:
    results = json.load(open(resfile))
  except Exception:
    results = {}
  tmp = tempfile.mkdtemp(prefix="seeded-")
  wt = os.path.join(tmp, "wt")
  try:
    for pid, name, patch, demo in items:
      key = "%s/%s" % (pid, name)
      if not os.path.exists(os.path.join(ROOT, "pvf", "props", pid.lower() + ".py")):
        results[key] = {"status": "no-check-yet"}
        continue
      sh("git -C /repo worktree add --detach %s HEAD" % wt)
      r = {"head": sh("git -C /repo rev-parse --short HEAD")[1].strip()}
      if results.get(key, {}).get("other_checks"):
        r["other_checks"] = results[key]["other_checks"]
      try:
        if demo:
          rc, out = sh("/venv/bin/python %s" % demo, cwd=wt)
          r["demo_clean_rc"] = rc
        rc, out = sh("git apply --whitespace=nowarn %s" % patch, cwd=wt)
        if rc != 0:
          rc, out = sh("git apply -3 --whitespace=nowarn %s" % patch, cwd=wt)
        if rc != 0:
          r["status"] = "patch-does-not-apply"
          r["detail"] = out[-400:]
          try:
            cur = json.load(open(resfile))
          except Exception:
            cur = {}
          cur[key] = r
          results = cur
          json.dump(cur, open(resfile, "w"), indent=1, sort_keys=True)
          print("%-40s %s" % (key, r["status"]))
          continue
        if not a.skip_tests:
          r["stable_tests_missing"] = stable_pass(wt)
        else:
          r["stable_tests_missing"] = results.get(key, {}).get("stable_tests_missing")
        if demo:
          rc, out = sh("/venv/bin/python %s" % demo, cwd=wt)
          r["demo_patched_rc"] = rc
        env = dict(os.environ, VERIF_REPO_ROOT=wt, VERIF_JOBS=a.jobs, VERIF_EVIDENCE_DIR=os.path.join(tmp, "evidence"))
        t0 = time.time()
        if a.with_check:
          rc, out = sh("./check %s %s" % (a.with_check, a.tier), cwd=ROOT, env=env)
          viol = [l for l in out.splitlines() if l.startswith("VIOLATION")]
          keys = [l.strip() for l in out.splitlines() if l.strip().startswith("key=")]
          prev = results.get(key, {})
          prev.setdefault("other_checks", {})[a.with_check] = {"status": "caught" if rc == 1 and viol else ("harness-error" if rc == 2 else "MISSED"), "keys": keys[:3]}
          r = prev
          results[key] = r
          raise _Skip()
        rc, out = sh("./check %s %s" % (pid, a.tier), cwd=ROOT, env=env)
        r["check_rc"] = rc
        r["check_wall_s"] = round(time.time() - t0, 1)
        viol = [l for l in out.splitlines() if l.startswith("VIOLATION")]
        keys = [l.strip() for l in out.splitlines() if l.strip().startswith("key=")]
        r["violations"] = len(viol)
        r["keys"] = keys[:5]
        r["status"] = "caught" if rc == 1 and viol else ("harness-error" if rc == 2 else "MISSED")
        if r["status"] == "MISSED" and demo and r.get("demo_patched_rc") == 0:
          r["status"] = "not-a-break-on-this-head (demo passes with the patch)"
        if rc == 2:
          r["detail"] = out[-600:]
      except _Skip:
        pass
      finally:
        sh("git -C /repo worktree remove --force %s" % wt)
      results[key] = r
      meta = os.path.join(os.path.dirname(patch), "meta.json")
      if not a.mutants and os.path.exists(meta):
        try:
          m = json.load(open(meta))
        except Exception:
          m = {}
        m["property"] = pid
        m["what_was_run"] = ("tools/seeded_run.py: patch applied to a scratch worktree of /repo@%s; pinned suite (46 stable tests) run there; "
                             "demo.py run on the clean and the patched tree; `VERIF_REPO_ROOT=<worktree> ./check %s %s`" % (r.get("head"), pid, a.tier))
        if r.get("other_checks"):
          m["other_checks"] = r["other_checks"]
        m["confirmed"] = {"stable_tests_still_pass": r.get("stable_tests_missing") == [], "demo_clean_rc": r.get("demo_clean_rc"),
                          "demo_patched_rc": r.get("demo_patched_rc"), "check_status": r.get("status"), "check_keys": r.get("keys")}
        json.dump(m, open(meta, "w"), indent=1, sort_keys=True)
      print("%-40s %s %s" % (key, r.get("status"), r.get("keys", [""])[:1]))
      try:
        cur = json.load(open(resfile))       # other runs may have written meanwhile: merge, do not clobber
      except Exception:
        cur = {}
      cur[key] = r
      results = cur
      tmpf = resfile + ".%d.tmp" % os.getpid()
      json.dump(cur, open(tmpf, "w"), indent=1, sort_keys=True)
      os.replace(tmpf, resfile)
  finally:
    sh("git -C /repo worktree prune")
    shutil.rmtree(tmp, ignore_errors=True)
  # evidence files were rewritten against scratch trees: the caller should re-run the checks on /repo


if __name__ == "__main__":
  main()
