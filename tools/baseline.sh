#!/bin/sh
# Runs the repository's pinned suite with the verification guard OFF and checks that
# every test listed as stable_pass in /root/.vp/BASELINE.json still passes.
unset NOXREPO_POX_VERIF
out=$(mktemp -d)
cd "${1:-/repo}" && /venv/bin/python -m pytest -ra -q -p no:cacheprovider --timeout=900 --continue-on-collection-errors --junitxml="$out/j.xml" >"$out/log" 2>&1
/venv/bin/python - "$out/j.xml" <<'PY'
import json, sys, xml.etree.ElementTree as ET
base = json.load(open('/root/.vp/BASELINE.json'))['stable_pass']
ok = set()
for tc in ET.parse(sys.argv[1]).getroot().iter('testcase'):
  if not any(c.tag in ('failure', 'error', 'skipped') for c in tc):
    ok.add('%s::%s' % (tc.get('classname'), tc.get('name')))
missing = [t for t in base if t not in ok]
print('baseline: %d/%d stable tests pass' % (len(base) - len(missing), len(base)))
for m in missing: print('  MISSING', m)
sys.exit(1 if missing else 0)
PY
rc=$?
rm -rf "$out"
exit $rc
