#!/venv/bin/python
"""mark_fixed.py <finding id> <commit>  -- flip an open known finding to fixed (suppresses nothing from then on)"""
import json, os, sys
p = os.path.join(os.path.dirname(os.path.dirname(os.path.abspath(__file__))), "known_findings.json")
d = json.load(open(p))
fid, commit = sys.argv[1], sys.argv[2]
hit = False
for e in d["findings"]:
  if e["id"] == fid:
    e["status"] = "fixed"; e["commit"] = commit
    e["line"] = "fixed: property=%s %s %s" % (e["property"], commit, e["what"][:160])
    hit = True
assert hit, "no such finding " + fid
tmp = p + ".tmp"
json.dump(d, open(tmp, "w"), indent=1)
os.replace(tmp, p)
print("fixed", fid, commit)
