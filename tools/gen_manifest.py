#!/venv/bin/python
"""Regenerates MANIFEST.json from the property modules present under pvf/props.
Properties without a module are listed under not_applicable with the reason given in
NOT_CLAIMED below (kept current by hand)."""
import importlib, json, os, sys
ROOT = os.path.dirname(os.path.dirname(os.path.abspath(__file__)))
sys.path.insert(0, ROOT)
sys.path.insert(1, "/repo")
NOT_CLAIMED = {}
try:
  NOT_CLAIMED = json.load(open(os.path.join(ROOT, "tools", "not_claimed.json")))
except FileNotFoundError:
  pass
props = [json.loads(l)["id"] for l in open(os.path.join(ROOT, "properties.jsonl")) if l.strip()]
checks, na, engines = [], [], {}
for pid in props:
  path = os.path.join(ROOT, "pvf", "props", pid.lower() + ".py")
  if not os.path.exists(path) or pid in NOT_CLAIMED:
    na.append({"property_id": pid, "reason": NOT_CLAIMED.get(pid, "no check is registered for this property yet (work in progress); nothing is claimed about it")})
    continue
  m = importlib.import_module("pvf.props." + pid.lower())
  checks.append({
    "property_id": pid,
    "quick_cmd": "./check %s quick" % pid,
    "thorough_cmd": "./check %s thorough" % pid,
    "evidence_file": "/verif/evidence/%s.json" % pid,
    "replay_cmd_template": "./check %s --replay {path}" % pid,
    "engine": "pvf",
    "level_claimed": {"category": m.LEVEL, "text": m.LEVEL_TEXT, "design_ref": "DESIGN.md section 4, %s" % pid},
    "level_note": m.LEVEL_NOTE,
    "technique": m.TECHNIQUE,
  })
man = {
  "version": 1,
  "setup_cmd": "sh setup.sh",
  "hooks": {
    "guard": "NOXREPO_POX_VERIF",
    "enable": "no source hooks exist: all instrumentation is harness-side replacement of module attributes (time, threading, select, socket) at run time; the checks import /repo's working tree directly (VERIF_REPO_ROOT overrides the path)",
    "baseline_off_cmd": "sh tools/baseline.sh",
    "source_commits": [],
    "add_only": True,
  },
  "engines": [{"name": "pvf", "path": "pvf/", "serves_properties": [c["property_id"] for c in checks],
               "kind_free_text": "property-based testing / fuzzing framework: exhaustive enumeration of small sub-spaces, Hypothesis generation with shrinking, explicit oracles (reference models, differential, round-trip, history invariants), replay files"}],
  "checks": checks,
  "not_applicable": na,
  "notes": "fix: commits in /repo and their witnesses are listed in known_findings.json (status=fixed suppresses nothing).",
}
json.dump(man, open(os.path.join(ROOT, "MANIFEST.json"), "w"), indent=1)
print("MANIFEST.json: %d checks, %d not claimed" % (len(checks), len(na)))
