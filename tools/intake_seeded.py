#!/venv/bin/python
"""intake_seeded.py <ID> <breaker worktree> [tag]  -- copy out/<n>/ deliverables into /verif/seeded/<ID>/<slug>/ and remove the worktree."""
import json, os, re, shutil, subprocess, sys
pid, wt = sys.argv[1], sys.argv[2]
tag = sys.argv[3] if len(sys.argv) > 3 else ""
root = "/verif/seeded/" + pid
os.makedirs(root, exist_ok=True)
out = os.path.join(wt, "out")
for n in sorted(os.listdir(out)) if os.path.isdir(out) else []:
  d = os.path.join(out, n)
  if not os.path.exists(os.path.join(d, "patch.diff")):
    continue
  try:
    m = json.load(open(os.path.join(d, "meta.json")))
  except Exception:
    m = {}
  words = re.sub(r"[^a-z0-9 ]", " ", m.get("breaks", "change").lower()).split()
  slug = "-".join(words[:6])[:48] or "change"
  dst = os.path.join(root, "%s%s-%s" % (tag, n, slug))
  if os.path.exists(dst):
    shutil.rmtree(dst)
  shutil.copytree(d, dst)
  print(dst)
subprocess.call(["git", "-C", "/repo", "worktree", "remove", "--force", wt])
