#!/bin/sh
# apply_fix.sh <slug>  -- apply proposed_fixes/<slug>.patch to /repo as one "fix:" commit (message from <slug>.msg), after the pinned suite passes
set -e
slug="$1"
cd /repo
git diff --quiet || { echo "/repo is dirty"; exit 1; }
git apply --whitespace=nowarn "/verif/proposed_fixes/$slug.patch" || git apply -3 --whitespace=nowarn "/verif/proposed_fixes/$slug.patch"
if ! sh /verif/tools/baseline.sh; then git checkout -- .; echo "baseline broken by $slug"; exit 1; fi
head -1 "/verif/proposed_fixes/$slug.msg" | grep -q '^fix: ' || { git checkout -- .; echo "message of $slug does not start with fix:"; exit 1; }
git commit -qa -F "/verif/proposed_fixes/$slug.msg"
echo "$slug $(git rev-parse --short HEAD)"
