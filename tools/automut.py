#!/venv/bin/python
"""automut.py -- automatic mutation audit (development tool, not a registered check).

  tools/automut.py --file pox/openflow/flow_table.py --props C03,C04 [--max 60] [--workers 4] [--jobs 4]
                   [--seed 1] [--lines 100-400] [--out mutants/auto/<name>.json]

Enumerates single-site mutations of one source file of /repo (comparison / arithmetic / boolean operator swaps,
integer constants +1, dropped `not`, statement deletion, break<->continue, return None), samples --max of them,
and for each one: copies /repo's working tree to a scratch directory outside /repo and /verif, applies the
mutation, byte-compiles the file, runs the pinned suite (a mutant that fails it is 'killed-by-tests' and not
interesting) and then every listed property's quick check with VERIF_REPO_ROOT pointing at the scratch tree.
A mutant no check flags is a SURVIVOR: either an equivalent mutant or a gap.  Survivors are written with their
diff so that they can be triaged by reading.  Scratch trees are removed as soon as a mutant is done.
"""
import argparse, ast, difflib, json, multiprocessing, os, random, shutil, subprocess, sys, tempfile, time

ROOT = os.path.dirname(os.path.dirname(os.path.abspath(__file__)))
REPO = "/repo"

CMP = {ast.Lt: "<=", ast.LtE: "<", ast.Gt: ">=", ast.GtE: ">", ast.Eq: "!=", ast.NotEq: "==", ast.Is: "is not", ast.IsNot: "is",
       ast.In: "not in", ast.NotIn: "in"}
CMP_TXT = {ast.Lt: "<", ast.LtE: "<=", ast.Gt: ">", ast.GtE: ">=", ast.Eq: "==", ast.NotEq: "!=", ast.Is: "is", ast.IsNot: "is not",
           ast.In: "in", ast.NotIn: "not in"}
BIN = {ast.Add: ("+", "-"), ast.Sub: ("-", "+"), ast.BitAnd: ("&", "|"), ast.BitOr: ("|", "&"), ast.LShift: ("<<", ">>"),
       ast.RShift: (">>", "<<"), ast.Mult: ("*", "+"), ast.FloorDiv: ("//", "*"), ast.Mod: ("%", "//")}


def _offsets(src):
  offs = [0]
  for line in src.splitlines(True):
    offs.append(offs[-1] + len(line))
  return offs


class Sites(ast.NodeVisitor):
  def __init__(self, src):
    self.src = src
    self.offs = _offsets(src)
    self.out = []          # (start, end, replacement, kind, lineno)
    self.skip_depth = 0

  def pos(self, lineno, col):
    # col offsets are in utf-8 bytes; the files are ASCII enough, fall back to char offsets
    return self.offs[lineno - 1] + col

  def span(self, node):
    return self.pos(node.lineno, node.col_offset), self.pos(node.end_lineno, node.end_col_offset)

  def add(self, start, end, repl, kind, lineno):
    if self.src[start:end] != repl:
      self.out.append((start, end, repl, kind, lineno))

  def _between(self, a_end, b_start, token, repl, kind, lineno):
    gap = self.src[a_end:b_start]
    i = gap.find(token)
    if i >= 0 and gap.count(token) == 1:
      self.add(a_end + i, a_end + i + len(token), repl, kind, lineno)

  def visit_FunctionDef(self, node):
    if node.name in ("__str__", "__repr__", "_to_str", "show", "dump", "__doc__"):
      return
    self.generic_visit(node)
  visit_AsyncFunctionDef = visit_FunctionDef

  def visit_Assert(self, node):
    return

  def visit_Expr(self, node):
    if isinstance(node.value, ast.Constant) and isinstance(node.value.value, str):
      return       # docstring
    seg = ast.get_source_segment(self.src, node) or ""
    if seg.startswith(("log.", "self.log.", "print(", "lg.", "self.msg(", "self.err(", "self.warn(", "self.debug(", "self.info(")):
      return
    if node.lineno == node.end_lineno:
      s, e = self.span(node)
      self.add(s, e, "pass", "del-stmt", node.lineno)
    self.generic_visit(node)

  def visit_Raise(self, node):
    return

  def visit_Assign(self, node):
    if node.lineno == node.end_lineno and not isinstance(node.value, (ast.Constant,)) or (
        node.lineno == node.end_lineno and isinstance(node.value, ast.Constant) and node.value.value in (True, False)):
      s, e = self.span(node)
      if isinstance(node.value, ast.Constant) and node.value.value in (True, False):
        vs, ve = self.span(node.value)
        self.add(vs, ve, str(not node.value.value), "flip-bool", node.lineno)
      elif all(isinstance(t, (ast.Attribute, ast.Subscript)) for t in node.targets):
        self.add(s, e, "pass", "del-assign", node.lineno)
    self.generic_visit(node)

  def visit_AugAssign(self, node):
    if node.lineno == node.end_lineno:
      s, e = self.span(node)
      self.add(s, e, "pass", "del-augassign", node.lineno)
    self.generic_visit(node)

  def visit_Return(self, node):
    if node.value is not None and not (isinstance(node.value, ast.Constant) and node.value.value is None):
      s, e = self.span(node.value)
      if isinstance(node.value, ast.Constant) and node.value.value in (True, False):
        self.add(s, e, str(not node.value.value), "flip-return", node.lineno)
    self.generic_visit(node)

  def visit_Break(self, node):
    s, e = self.span(node)
    self.add(s, e, "continue", "break->continue", node.lineno)

  def visit_Continue(self, node):
    s, e = self.span(node)
    self.add(s, e, "break", "continue->break", node.lineno)

  def visit_Compare(self, node):
    left = node.left
    for op, right in zip(node.ops, node.comparators):
      t = type(op)
      if t in CMP:
        a_end = self.span(left)[1]
        b_start = self.span(right)[0]
        self._between(a_end, b_start, CMP_TXT[t], CMP[t], "cmp:%s->%s" % (CMP_TXT[t], CMP[t]), node.lineno)
      left = right
    self.generic_visit(node)

  def visit_BinOp(self, node):
    t = type(node.op)
    if t in BIN and not (t is ast.Mod and isinstance(node.left, ast.Constant) and isinstance(node.left.value, (str, bytes))):
      a_end = self.span(node.left)[1]
      b_start = self.span(node.right)[0]
      tok, repl = BIN[t]
      self._between(a_end, b_start, tok, repl, "bin:%s->%s" % (tok, repl), node.lineno)
    self.generic_visit(node)

  def visit_BoolOp(self, node):
    tok, repl = ("and", "or") if isinstance(node.op, ast.And) else ("or", "and")
    for a, b in zip(node.values, node.values[1:]):
      self._between(self.span(a)[1], self.span(b)[0], tok, repl, "bool:%s->%s" % (tok, repl), node.lineno)
    self.generic_visit(node)

  def visit_UnaryOp(self, node):
    if isinstance(node.op, ast.Not):
      s, e = self.span(node)
      os_, oe = self.span(node.operand)
      self.add(s, e, "(" + self.src[os_:oe] + ")", "drop-not", node.lineno)
    self.generic_visit(node)

  def visit_Constant(self, node):
    if isinstance(node.value, int) and not isinstance(node.value, bool) and node.lineno == node.end_lineno:
      s, e = self.span(node)
      txt = self.src[s:e]
      if txt.lower().startswith("0x"):
        self.add(s, e, hex(node.value + 1), "const+1", node.lineno)
      elif txt.isdigit():
        self.add(s, e, str(node.value + 1), "const+1", node.lineno)
        if node.value > 1:
          self.add(s, e, str(node.value - 1), "const-1", node.lineno)

  def visit_If(self, node):
    s, e = self.span(node.test)
    self.add(s, e, "not (" + self.src[s:e] + ")", "negate-if", node.lineno)
    self.generic_visit(node)


def enumerate_sites(src, lines=None):
  v = Sites(src)
  v.visit(ast.parse(src))
  out = []
  seen = set()
  for s in v.out:
    if lines and not (lines[0] <= s[4] <= lines[1]):
      continue
    if s[:3] in seen:
      continue
    seen.add(s[:3])
    out.append(s)
  return out


def sh(cmd, cwd=None, env=None, timeout=1800):
  try:
    p = subprocess.run(cmd, shell=True, cwd=cwd, env=env, stdout=subprocess.PIPE, stderr=subprocess.STDOUT, timeout=timeout)
    return p.returncode, p.stdout.decode(errors="replace")
  except subprocess.TimeoutExpired:
    return 124, "timeout"


def work(job):
  idx, relfile, src, site, props, jobs, skip_tests = job
  start, end, repl, kind, lineno = site
  mutated = src[:start] + repl + src[end:]
  try:
    compile(mutated, relfile, "exec")
  except SyntaxError:
    return {"idx": idx, "status": "syntax-error", "kind": kind, "line": lineno}
  tmp = tempfile.mkdtemp(prefix="automut-")
  tree = os.path.join(tmp, "repo")
  res = {"idx": idx, "kind": kind, "line": lineno, "file": relfile,
         "diff": "".join(difflib.unified_diff(src.splitlines(True), mutated.splitlines(True), "a/" + relfile, "b/" + relfile, n=1))}
  try:
    shutil.copytree(REPO, tree, ignore=shutil.ignore_patterns(".git", "__pycache__", "*.pyc"))
    with open(os.path.join(tree, relfile), "w") as f:
      f.write(mutated)
    if not skip_tests:
      rc, out = sh("timeout -k 5 180 sh %s/tools/baseline.sh %s" % (ROOT, tree))
      if rc != 0:
        res["status"] = "killed-by-tests" if rc not in (124, 137) else "killed-by-tests(hang)"
        return res
    res["checks"] = {}
    status = "SURVIVED"
    for p in props:
      env = dict(os.environ, VERIF_REPO_ROOT=tree, VERIF_JOBS=str(jobs), VERIF_EVIDENCE_DIR=os.path.join(tmp, "ev"), VERIF_OUT_DIR=os.path.join(tmp, "out"))
      t0 = time.time()
      rc, out = sh("./check %s quick --jobs %d" % (p, jobs), cwd=ROOT, env=env, timeout=900)
      keys = [l.strip()[:200] for l in out.splitlines() if l.strip().startswith("key=")][:2]
      res["checks"][p] = {"rc": rc, "wall": round(time.time() - t0, 1), "keys": keys}
      if rc == 1:
        status = "caught"
        break
      if rc not in (0, 1):
        res["checks"][p]["tail"] = out[-300:]
        if status != "caught":
          status = "harness-error"
    res["status"] = status
    return res
  finally:
    shutil.rmtree(tmp, ignore_errors=True)


def main():
  ap = argparse.ArgumentParser()
  ap.add_argument("--file", required=True)
  ap.add_argument("--props", required=True)
  ap.add_argument("--max", type=int, default=60)
  ap.add_argument("--workers", type=int, default=4)
  ap.add_argument("--jobs", type=int, default=4)
  ap.add_argument("--seed", type=int, default=1)
  ap.add_argument("--lines", default=None)
  ap.add_argument("--kinds", default=None, help="comma list of kind prefixes to keep")
  ap.add_argument("--skip-tests", action="store_true")
  ap.add_argument("--out", default=None)
  ap.add_argument("--list", action="store_true")
  a = ap.parse_args()
  src = open(os.path.join(REPO, a.file)).read()
  lines = tuple(int(x) for x in a.lines.split("-")) if a.lines else None
  sites = enumerate_sites(src, lines)
  if a.kinds:
    ks = tuple(a.kinds.split(","))
    sites = [s for s in sites if s[3].startswith(ks)]
  rnd = random.Random(a.seed)
  rnd.shuffle(sites)
  total = len(sites)
  sites = sites[:a.max]
  if a.list:
    for s in sorted(sites, key=lambda s: s[4]):
      print(s[4], s[3], repr(src[s[0]:s[1]])[:60], "->", repr(s[2])[:60])
    print(total, "sites")
    return
  props = a.props.split(",")
  out = a.out or os.path.join(ROOT, "mutants", "auto", os.path.basename(a.file)[:-3] + "-" + "-".join(props) + "-s%d.json" % a.seed)
  os.makedirs(os.path.dirname(out), exist_ok=True)
  jobs = [(i, a.file, src, s, props, a.jobs, a.skip_tests) for i, s in enumerate(sites)]
  results = []
  t0 = time.time()
  with multiprocessing.Pool(a.workers) as pool:
    for r in pool.imap_unordered(work, jobs):
      results.append(r)
      print("%-16s line %-5s %-22s %s" % (r.get("status"), r.get("line"), r.get("kind"), json.dumps(r.get("checks", {}))[:150]), flush=True)
      json.dump({"file": a.file, "props": props, "sites_total": total, "sampled": len(sites), "seed": a.seed,
                 "head": subprocess.check_output(["git", "-C", REPO, "rev-parse", "--short", "HEAD"]).decode().strip(),
                 "results": sorted(results, key=lambda r: r["idx"])}, open(out, "w"), indent=1)
  c = {}
  for r in results:
    c[r["status"]] = c.get(r["status"], 0) + 1
  print("== %s %s: %s of %d sites sampled, %s, wall %.0fs -> %s" % (a.file, props, len(sites), total, c, time.time() - t0, out))


if __name__ == "__main__":
  main()
